"""C17 - Address quoting and parsing agree; header recipients become the envelope.

Part 1 (in-process, inproc/c17_rt.c + c17_wrap_{smtpd,remote,inject}.c): for EVERY local part up to length 5 (quick) / 6 (thorough)
over a 19-symbol alphabet (the 13 RFC 822/821 specials, space, CR, TAB, 'a', '+', one 8-bit byte) and for seeded random ones up
to 200 bytes (all bytes but NUL and LF; a family around the 900-byte limit), with the domains h.example, h, [1.2.3.4] (and h+ for
qmail-inject): addrparse("TO:<" addrmangle(a) ">") == a and addrmangle's output decodes to a under an independent RFC 821 reader;
unquote(addrlist(parse("To: " quote2(a)))) == [a]; parse(unparse(t)) == t; quote_need(s)==0 => quote(s)==s and s is a dot-atom;
qmail-inject's dorecip(a) == the documented rewriting of a.

Part 2 (whole program): the real qmail-inject with QMAILQUEUE=shim/standin. Headers come from an RFC 822 address-list grammar
with the mailboxes known by construction (addr-spec, lone box names, phrase <route-addr>, source routes, quoted local parts, domain
literals, groups incl. empty, nested comments, folding, missing commas between addr-specs, empty list elements) in To/Cc/Bcc/
Apparently-To/Resent-*, sender fields, other fields; modes -a/-h/-H/-A with argument recipients, -f, QMAILINJECT flags, control
files defaulthost/defaultdomain/plusdomain/me and their QMAIL* overrides. Oracle = DESIGN.md 5/C17: envelope recipients = exactly
the listed mailboxes after the documented rewriting (compared as a multiset: the order is not documented), sender selection,
no Bcc/Resent-Bcc/Return-Path/Content-Length in the queued message, all other fields kept in order (non-address fields
byte-identical), documented additions only, and every rewritten address field parses again - with the independent reference
parser of c17_ref.py - to the same mailboxes in the same order.

Left out relative to the design: libFuzzer round-trip target (the enumerator + seeded families cover the domain); syntactically
invalid recipient fields (C20)."""
import os, re, json, subprocess
from lib import vlib, sandbox, inproc
from hypothesis import strategies as st
from props import c17_ref as ref
from props import c11_tools

LEVEL = "exploration"
RULE = ("Part 1: complete enumeration of local parts over the 19-symbol alphabet up to the bound plus seeded random local parts; "
        "non-trivial = the local part needs quoting. Part 2: Hypothesis draws (control files, environment, mode, -f, argument recipients, "
        "header fields built from the RFC 822 address-list grammar with CFWS/folding between tokens, body); one case = one qmail-inject run; "
        "non-trivial = some mailbox has a quoted local part, or the header has at least 2 of {comment, group, route, folding, quoted string}; "
        "distinct = digest of the whole scenario.")
ASSUMPTIONS = ["only syntactically valid header fields are generated (invalid ones are kept verbatim by qmail-inject: C20)",
               "a comma is generated before every 'phrase <route-addr>' and every group (commas are omitted only before a bare addr-spec, "
               "the case qmail-header.5 documents)",
               "the order of envelope recipients is not documented: compared as a multiset",
               "-f together with the r flag: the documents do not say whether -@[] is appended; both accepted (slack)",
               "host names in control files / environment come from a label pool (letters, digits, '-', one trailing '+'); no domain literals there",
               "address <> is not generated in recipient fields; NUL and LF never occur in addresses"]

ALPHA = "28293c3e402c3b3a5c222e5b5d200d09612be9"
INJ_LIBS = ("headerbody.o hfield.o newfield.o quote.o control.o date822fmt.o constmap.o qmail.o case.a fd.a wait.a open.a getln.a sig.a "
            "getopt.a datetime.a token822.o env.a stralloc.a substdio.a error.a str.a fs.a auto_qmail.o")
EXCLUDE_ANGLE_COMMENT = False   # the defect was repaired by fix: commit (token822 angle comment, see known-findings.txt): always generated (was: not os.environ.get("VERIF_C17_INCLUDE_ANGLE_COMMENT"))    # set it to let the check rediscover the finding
FIXTIME = 1000000000
FIXPID = 4711


# ------------------------------------------------------------------ part 1: in-process round trips

def build_rt(tree):
    tree.make("qmail-smtpd", "qmail-remote", "qmail-inject")
    V = vlib.VERIF
    ws = inproc.wrap_object(tree, V + "/inproc/c17_wrap_smtpd.c", tree.path("c17_wrap_smtpd.o"))
    wr = inproc.wrap_object(tree, V + "/inproc/c17_wrap_remote.c", tree.path("c17_wrap_remote.o"))
    wi = inproc.wrap_object(tree, V + "/inproc/c17_wrap_inject.c", tree.path("c17_wrap_inject.o"))
    out = tree.path("c17-rt")
    inproc.link(tree, out, [V + "/inproc/c17_rt.c", ws, wr, wi], inproc.dedup_libs(inproc.SMTPD_LIBS, inproc.REMOTE_LIBS, INJ_LIBS))
    return out


def replay_rt(binp, local):
    p = subprocess.run([binp, "--replay", local.hex()], stdout=subprocess.PIPE, stderr=subprocess.STDOUT,
                       env=dict(os.environ, ASAN_OPTIONS="detect_leaks=0"))
    out = p.stdout.decode(errors="replace")
    _, v = inproc.parse_stats(out)
    if p.returncode == 0:
        return None
    return v[0] if v else "CRASH rc=%s %s" % (p.returncode, out[-800:])


def run_rt(ctx, tree):
    binp = build_rt(tree)
    for sc in regress_scenarios(rt=True):
        ctx.stats.cls("regress_files")
        v = replay_rt(binp, bytes.fromhex(sc["local"]))
        if v:
            ctx.stats.violations.append(("round trip (regression input): %s" % v, sc))
    nsh = vlib.NCPU
    maxlen = ctx.n(5, 6)
    res = inproc.run_shards([[binp, "--enum", ALPHA, str(maxlen), str(i), str(nsh)] for i in range(nsh)])
    v1 = inproc.merge_c_stats(ctx, res, "rt-enum")
    cnt = ctx.n(120000, 1500000)
    res = inproc.run_shards([[binp, "--rand", str(vlib.subseed(ctx.seed, "c17rt", i)), str(cnt), "200"] for i in range(nsh)])
    v2 = inproc.merge_c_stats(ctx, res, "rt-rand")
    ctx.exhaustive = True
    ctx.notes["exhaustive_part"] = "round trips for all local parts up to length %d over the 19-symbol alphabet %s" % (maxlen, ALPHA)
    for v in v1 + v2:
        m = re.match(r"local=([0-9a-f]*) msg=(.*)", v)
        if not m:
            ctx.stats.violations.append(("round-trip harness crashed: " + v[:1500], {"kind": "rt-crash", "out": v[:3000]}))
            continue
        local = bytes.fromhex(m.group(1))
        if len(local) > 8:
            local = inproc.ddmin(local, lambda d: replay_rt(binp, d) is not None)
        msg = replay_rt(binp, local) or v
        ctx.stats.violations.append(("round trip: %s | local part %r" % (re.sub(r"^local=[0-9a-f]* msg=", "", msg), local), {"kind": "rt", "local": local.hex()}))


# ------------------------------------------------------------------ part 2: generator (RFC 822 address lists, mailboxes known by construction)

class Tape:
    """Decision tape: the generator is a pure function of one Hypothesis-drawn byte string (one draw per scenario keeps the
    library overhead small and lets Hypothesis shrink the whole scenario as one value: shorter / smaller bytes = simpler,
    an exhausted tape answers 0 = the first, simplest alternative everywhere)."""

    def __init__(self, data):
        self.d = data
        self.i = 0

    def pick(self, n):
        """integer in [0, n)"""
        if n <= 1:
            return 0
        if self.i >= len(self.d):
            return 0
        v = self.d[self.i]
        self.i += 1
        if n > 256 and self.i < len(self.d):
            v = v * 256 + self.d[self.i]
            self.i += 1
        return v % n

    def choice(self, seq):
        return seq[self.pick(len(seq))]

    def chance(self, k):
        """True with probability about 1/k (never on an exhausted tape)"""
        return self.pick(k) == k - 1


ATOMS = [b"joe", b"a", b"x1", b"Fred", b"o'neil", b"a+b", b"#$%&", b"john_q", b"user=x", b"p+", b"B", b"list-owner", b"{x}|y~"]
QCHARS = [b"a", b"b", b" ", b"  ", b"@", b".", b",", b";", b":", b"<", b">", b"(", b")", b"[", b"]", b'"', b"\\", b"\t", b"\r", b"\xe9", b"\xff", b"\x01", b"+", b"-"]
LABELS = [b"a", b"b1", b"example", b"host", b"x-y", b"UP", b"p+q", b"h", b"org", b"mail9"]
LITERALS = [b"[1.2.3.4]", b"[127.0.0.1]", b"[IPv6:fe80::1]", b"[10.0.0.1]"]
PHRASEW = [b"Joe", b"Q", b"User", b"the", b"list", b"Dr", b"x+y", b"O'Neil"]
COMMENTS = [b"(c)", b"(a comment)", b"(nested (comment) here)", b"(with \\) paren and \\\\ backslash \\( )", b"(<x@y>, \"; : [ )", b"(\xe9\xff)", b"()", b"(fold\n inside)", b"((()))"]
WS = [b" ", b"  ", b"\t", b" \t "]
FOLDS = [b"\n ", b"\r\n\t", b"\n  ", b" \n\t"]
SPECIAL_TOKS = (b"<", b">", b"@", b",", b";", b":", b".")


def quote_render(T, content):
    """Render bytes as an RFC 822 quoted-string: escapes are mandatory for '"', backslash and CR, optional elsewhere."""
    out = b'"'
    for i in range(len(content)):
        c = content[i:i + 1]
        if c in b'"\\\r' or T.chance(10):
            out += b"\\"
        out += c
    return out + b'"'


def qcontent(T, maxn):
    return b"".join(T.choice(QCHARS) for _ in range(T.pick(maxn + 1)))


def word(T):
    """-> (text, value, is_quoted)"""
    if T.chance(4):
        content = qcontent(T, 5)
        return quote_render(T, content), content, True
    a = T.choice(ATOMS)
    return a, a, False


def domain(T):
    """-> (token texts, value)"""
    if T.chance(12):
        l = T.choice(LITERALS)
        return [l], l
    n = T.choice([2, 1, 1, 2, 3])
    labs = [T.choice(LABELS) for _ in range(n)]
    if T.chance(5):
        labs[-1] = labs[-1] + b"+"
    toks = []
    for i, l in enumerate(labs):
        if i:
            toks.append(b".")
        toks.append(l)
    return toks, b".".join(labs)


def addrspec(T, need_domain=False):
    """-> (tokens, mailbox, features)"""
    nw = T.choice([1, 1, 1, 2, 3])
    toks, vals, feats = [], [], set()
    for i in range(nw):
        t, v, q = word(T)
        if i:
            toks.append(b".")
        toks.append(t)
        vals.append(v)
        if q:
            feats.add("quoted")
    local = b".".join(vals)
    if need_domain or not T.chance(4):
        dt, dv = domain(T)
        return toks + [b"@"] + dt, (local, dv), feats
    return toks, (local, None), feats


def phrase(T):
    n = 1 + T.pick(3)
    toks = []
    feats = set()
    for _ in range(n):
        if T.chance(5):
            toks.append(quote_render(T, qcontent(T, 4)))
            feats.add("quoted")
        else:
            toks.append(T.choice(PHRASEW))
    return toks, feats


def routeaddr(T):
    """[phrase] '<' [route] addr-spec '>' -> (tokens, mailbox, features)"""
    toks, feats = [], set()
    if not T.chance(5):
        toks, feats = phrase(T)
    toks = toks + [b"<"]
    withroute = T.chance(4)
    if withroute:
        feats.add("route")
        nr = 1 + T.pick(3)
        for i in range(nr):
            if i:
                toks.append(b",")
            dt, _ = domain(T)
            toks += [b"@"] + dt
        toks.append(b":")
    at, mb, f2 = addrspec(T, need_domain=withroute)
    return toks + at + [b">"], mb, feats | f2


def element_list(T, ingroup=False):
    """-> list of (kind, tokens, [mailboxes], features); kind in 'spec','route','group','empty'"""
    n = T.choice([1, 2, 0, 3, 1, 2, 4, 5]) if not ingroup else T.choice([1, 0, 2, 3])
    out = []
    for _ in range(n):
        k = T.pick(12)
        if k <= 5:
            t, m, f = addrspec(T)
            out.append(("spec", t, [m], f))
        elif k <= 8:
            t, m, f = routeaddr(T)
            out.append(("route", t, [m], f))
        elif k == 9 or ingroup:
            out.append(("empty", [], [], set()))
        else:
            pt, pf = phrase(T)
            inner = element_list(T, ingroup=True)
            t, ms, f = join_elements(T, inner)
            out.append(("group", pt + [b":"] + t + [b";"], ms, pf | f | {"group"}))
    return out


def join_elements(T, els):
    """Join elements with commas; a comma may be dropped only between two bare addr-specs ('spec' then 'spec').
    -> (tokens, mailboxes, features); the pseudo token None marks a place where white space is REQUIRED."""
    toks, ms, feats = [], [], set()
    prev = None
    for kind, t, m, f in els:
        if prev is not None:
            if prev == "spec" and kind == "spec" and T.chance(4):
                toks.append(None)               # missing comma: "djb fred -> djb, fred"
                feats.add("nocomma")
            else:
                toks.append(b",")
        toks += t
        ms += m
        feats |= f
        prev = kind
    return toks, ms, feats


def render(T, toks, feats, lead=b" "):
    """Put CFWS between the tokens. Adjacent words need a separator; at most one fold per gap, never a white-space-only line."""
    out = lead
    prev = None
    glued = False
    for t in toks:
        if t is None:
            sep = T.choice(WS + COMMENTS[:3] + FOLDS)
            if sep in COMMENTS:
                feats.add("comment")
            if sep in FOLDS:
                feats.add("fold")
            out += sep
            glued = True
            continue
        if glued:
            out += t
            prev = t
            glued = False
            continue
        need = prev is not None and prev not in SPECIAL_TOKS and t not in SPECIAL_TOKS
        r = T.pick(10)
        if r >= 8 and (prev == b"<" or t == b">") and EXCLUDE_ANGLE_COMMENT:
            # known finding (see the final report / sensitivity/C17.md): a comment directly inside an angle bracket becomes part of the
            # address handed to the rewriting functions (plus domain, route stripping, <> detection go wrong). Excluded by construction.
            feats.add("excluded_angle_comment")
            r = 5
        if r <= 4:
            sep = T.choice(WS) if need else b""
        elif r <= 6:
            sep = T.choice(WS)
        elif r == 7:
            sep = T.choice(FOLDS)
            feats.add("fold")
        else:
            sep = T.choice([b"", b" "]) + T.choice(COMMENTS) + T.choice([b"", b" "])
            feats.add("comment")
            if b"\n" in sep:
                feats.add("fold")
        out += sep + t
        prev = t
    tail = T.choice([b"", b"", b" ", b" (end)", b"\t"])
    if b"(" in tail:
        feats.add("comment")
    return out + tail + b"\n"


RCPT_NAMES = ["To", "Cc", "Bcc", "Apparently-To", "Resent-To", "Resent-Cc", "Resent-Bcc"]
SENDER_NAMES = ["From", "Sender", "Reply-To", "Return-Receipt-To", "Errors-To", "Resent-From", "Resent-Sender", "Resent-Reply-To"]
OTHER = [("Subject", [b" hello world", b" Re: <odd> (stuff [ \"x", b" caf\xe9 ; , :", b"", b" folded\n\tsubject line"]),
         ("X-Loop", [b" x@y", b" (", b" a,b"]), ("Received", [b" from a by b; 1 Jan 2000 00:00:00 -0000", b" (qmail 1 invoked by uid 2);\n  1 Jan 2000 00:00:00 -0000"]),
         ("Date", [b" 1 Jan 2000 00:00:00 -0000"]), ("Message-ID", [b" <abc@def.example>"]), ("Content-Type", [b" text/plain; charset=\"x\""]),
         ("Content-Length", [b" 42", b" 0"]), ("Comments", [b" a: b"]), ("Resent-Date", [b" 2 Jan 2000 00:00:00 -0000"]),
         ("Resent-Message-ID", [b" <r@def.example>"]), ("X-Custom-9", [b" \x01\xff"]),
         ("Delivered-To", [b" somebody@x.example"]), ("Keywords", [b" k1, k2"])]
USERS = [b"joe", b"j.q", b"a b", b"o'brien", b"x@y", b"UP", b".dot", b"p+"]


def case_variant(T, name):
    k = T.pick(6)
    return name if k <= 2 else name.upper() if k == 3 else name.lower() if k == 4 else name.swapcase()


def build_scenario(data):
    """tape bytes -> concrete scenario (plain data; bytes are converted by vlib.jsonable for the replay file)."""
    T = Tape(data)

    def host():
        labs = [T.choice(LABELS) for _ in range(1 + T.pick(3))]
        return b".".join(labs) + (b"+" if T.chance(4) else b"")
    files = {"me": T.choice([b"me.example", None, b"me"])}
    for c in ("defaulthost", "defaultdomain", "plusdomain"):
        files[c] = host() if T.pick(3) else None
    env = {}
    for c in ("QMAILDEFAULTHOST", "QMAILDEFAULTDOMAIN", "QMAILPLUSDOMAIN"):
        if T.chance(6):
            env[c] = host()
    for c, p in (("USER", 3), ("LOGNAME", 5), ("MAILUSER", 6), ("QMAILUSER", 6), ("QMAILSUSER", 5)):
        if T.chance(p):
            env[c] = T.choice(USERS)
    for c, p in (("MAILHOST", 6), ("QMAILHOST", 6), ("QMAILSHOST", 5)):
        if T.chance(p):
            env[c] = host()
    if T.chance(5):
        env["QMAILNAME"] = T.choice([b"Joe Q. User", b"J (x) \"q\" \\", b"", b"caf\xe9"])
    flags = "".join(c for c in "cfimrs" if T.chance(5))
    mode = T.choice(["", "", "a", "h", "H", "A"])
    feats = set()

    def argaddr():
        k = T.pick(4)
        if k <= 1:
            content = T.choice(ATOMS)
        elif k == 2:
            content = qcontent(T, 5) or b"q"
        else:
            content = bytes(T.pick(256) for _ in range(1 + T.pick(12))).replace(b"\0", b"n").replace(b"\n", b"l")
        if T.chance(4) and b"@" not in content:
            return [content, None]
        _, dv = domain(T)
        return [content, dv]
    args = [argaddr() for _ in range(T.choice([0, 0, 1, 2, 3]))]
    f = None
    if T.chance(5):
        f = [] if T.chance(3) else argaddr()
    fields = []
    nf = T.choice([1, 2, 3, 0, 4, 5, 6])
    for _ in range(nf):
        k = T.pick(10)
        if k <= 4:
            name = T.choice(RCPT_NAMES[:4] * 3 + RCPT_NAMES[4:])
            toks, ms, ft = join_elements(T, element_list(T))
            raw = case_variant(T, name).encode() + b":" + (render(T, toks, ft, lead=T.choice([b" ", b"", b"  ", b"\t"])) if toks else b" \n")
            fields.append({"name": name, "kind": "rcpt", "raw": raw, "mboxes": ms})
            feats |= ft
        elif k <= 6:
            name = T.choice(SENDER_NAMES)
            toks, ms, ft = join_elements(T, element_list(T))
            raw = case_variant(T, name).encode() + b":" + (render(T, toks, ft) if toks else b"\n")
            fields.append({"name": name, "kind": "sender", "raw": raw, "mboxes": ms})
            feats |= ft
        else:
            name, vals = T.choice(OTHER)
            fields.append({"name": name, "kind": "other", "raw": case_variant(T, name).encode() + b":" + T.choice(vals) + b"\n", "mboxes": []})
    if T.chance(4):
        # one Return-Path field: addr-spec, [phrase] <[route] addr-spec>, or <>
        k = T.pick(4)
        ft = set()
        if k == 3:
            toks, ms = [b"<", b">"], [None]
        elif k == 0:
            t, m, ft = addrspec(T)
            toks, ms = t, [m]
        else:
            t, m, ft = routeaddr(T)
            toks, ms = t, [m]
        raw = case_variant(T, "Return-Path").encode() + b":" + render(T, toks, ft)
        fields.insert(T.pick(len(fields) + 1), {"name": "Return-Path", "kind": "returnpath", "raw": raw, "mboxes": ms})
        feats |= ft
    body = T.choice([b"body line\n", None, b"", b"To: not-a-header@x\n\n.\n", b"\xff\x00 binary\n"])
    return {"files": files, "env": env, "flags": flags, "mode": mode, "args": args, "f": f, "fields": fields, "body": body,
            "feats": sorted(feats)}


def scenario():
    return st.binary(min_size=400, max_size=900).map(build_scenario)


# ------------------------------------------------------------------ part 2: model and oracle

def arg_bytes(a):
    local, dom = a
    return local if dom is None else local + b"@" + dom


def expectations(sc):
    """Everything the documents promise about the queue input for this scenario."""
    files = {k: v for k, v in sc["files"].items()}
    env = sc["env"]
    ctl = {c: ref.control_value(c, files, env) for c in ("defaulthost", "defaultdomain", "plusdomain")}
    flags = sc["flags"]
    names = [f["name"].lower() for f in sc["fields"]]
    resent = any(n.startswith("resent-") for n in names)
    args = [ref.rewrite(tuple(a), ctl) for a in sc["args"]]
    hset = ("resent-to", "resent-cc", "resent-bcc") if resent else ("to", "cc", "bcc", "apparently-to")
    hdr = [ref.rewrite(tuple(m), ctl) for f in sc["fields"] if f["kind"] == "rcpt" and f["name"].lower() in hset for m in f["mboxes"]]
    mode = sc["mode"]
    if mode == "a":
        rcpts = args
    elif mode == "h":
        rcpts = hdr
    elif mode == "H":
        rcpts = args + hdr
    else:
        rcpts = args if sc["args"] else hdr
    # sender
    senders = None
    rp = [f for f in sc["fields"] if f["kind"] == "returnpath"]
    mailuser = env.get("QMAILUSER") or env.get("MAILUSER") or env.get("USER") or env.get("LOGNAME") or b"anonymous"
    mailhost = env.get("QMAILHOST") or env.get("MAILHOST")
    if sc["f"] is not None:
        s = b"" if sc["f"] == [] else ref.rewrite(tuple(sc["f"]), ctl)
        senders = [s] + ([s + b"-@[]"] if "r" in flags else [])          # second alternative = slack
    elif rp and "s" not in flags:
        m = rp[0]["mboxes"][0]
        s = b"" if m is None else ref.rewrite(tuple(m), ctl)
        senders = [s + (b"-@[]" if "r" in flags else b"")]
    else:
        u = env.get("QMAILSUSER") or mailuser
        hst = env.get("QMAILSHOST") or mailhost
        if "m" in flags:
            u = u + b"-%d.%d" % (FIXTIME, FIXPID)
        if "r" in flags:
            u = u + b"-"
        s = ref.rewrite((u, hst), ctl)
        senders = [s + (b"-@[]" if "r" in flags else b"")]
    # header
    kept = []
    for f in sc["fields"]:
        n = f["name"].lower()
        if n in ("bcc", "resent-bcc", "return-path", "content-length"):
            continue
        if n == "from" and "f" in flags:
            continue
        if n == "message-id" and "i" in flags:
            continue
        kept.append(f)
    keptnames = [f["name"].lower() for f in kept]
    added = set()
    if resent:
        for n in ("resent-date", "resent-message-id", "resent-from"):
            if n not in names:
                added.add(n)
        if "resent-to" not in names and "resent-cc" not in names:
            added.add("resent-cc")
    else:
        if "date" not in names:
            added.add("date")
        if "message-id" not in keptnames:
            added.add("message-id")
        if "from" not in keptnames:
            added.add("from")
        if "to" not in names and "cc" not in names:
            added.add("cc")
    return {"ctl": ctl, "rcpts": rcpts, "senders": senders, "kept": kept, "added": added, "resent": resent,
            "from": (mailuser, mailhost)}


class Runner:
    def __init__(self, tree, wid):
        self.tree = tree
        self.h = sandbox.Home(tree, os.path.join(vlib.scratch_root(), "c17-%s" % wid))
        self.h.link_bins()
        self.shim, self.standin = c11_tools.private_tools()
        self.rec = os.path.join(self.h.dir, "rec")
        os.makedirs(self.rec, exist_ok=True)

    def execute(self, sc):
        h = self.h
        for c in ("me", "defaulthost", "defaultdomain", "plusdomain"):
            v = sc["files"].get(c)
            h.control(c, None if v is None else v + b"\n")
        for f in os.listdir(self.rec):
            os.unlink(os.path.join(self.rec, f))
        env = h.env(role="inj", uid=4242, trace=False, QMAILQUEUE=self.standin, LD_PRELOAD=self.shim, VSHIM_FIXTIME=FIXTIME, VSHIM_FIXPID=FIXPID,
                    **sandbox.standin_env(self.rec, read="01", qq=True))
        if sc["flags"]:
            env["QMAILINJECT"] = sc["flags"]
        if sc.get("mfault") is not None:
            env["VSHIM_FAULT"] = "inj:malloc:%d:12" % sc["mfault"]       # the program's k-th allocation fails once (out of memory)
        benv = {os.fsencode(k): os.fsencode(v) for k, v in env.items()}
        for k, v in sc["env"].items():
            benv[k.encode()] = v
        argv = [os.fsencode(self.tree.path("qmail-inject"))]
        if sc["mode"]:
            argv.append(b"-" + sc["mode"].encode())
        if sc["f"] is not None:
            argv += [b"-f", arg_bytes(sc["f"]) if sc["f"] else b""]
        if sc["args"]:
            argv += [b"--"] + [arg_bytes(a) for a in sc["args"]]
        msg = b"".join(f["raw"] for f in sc["fields"])
        if sc["body"] is not None:
            msg += b"\n" + sc["body"]
        rc, out, err = sandbox.run_proc(argv, benv, stdin=msg)
        return rc, err, sandbox.standin_records(self.rec), msg


def mset(l):
    return sorted(l)


def judge(sc, rc, err, recs, msg):
    ex = expectations(sc)
    if rc != 0:
        return "qmail-inject exited %s on a valid message (%r)" % (rc, err[:200])
    if len(recs) != 1 or not recs[0].get("commit"):
        return "qmail-inject exited 0 but the queue program saw %d complete submissions" % len([r for r in recs if r.get("commit")])
    envl = sandbox.parse_envelope(recs[0].get("fd1", b""))
    if envl is None:
        return "malformed envelope %r" % recs[0].get("fd1", b"")[:200]
    sender, rcpts = envl
    if mset(rcpts) != mset(ex["rcpts"]):
        return "envelope recipients %r, expected (any order) %r" % (rcpts, ex["rcpts"])
    if sender not in ex["senders"]:
        return "envelope sender %r, expected %r" % (sender, ex["senders"][0])
    q = recs[0].get("fd0", b"")
    try:
        ofields, obody = ref.split_header(q)
    except ref.ParseError as e:
        return "queued message has a malformed header: %s" % e
    want_body = sc["body"]
    if (obody or b"") != (want_body or b"") or (obody is None) != (want_body is None):
        return "message body changed: %r != %r" % (obody, want_body)
    onames = [f[0] for f in ofields]
    for bad in (b"bcc", b"resent-bcc", b"return-path", b"content-length"):
        if bad in onames:
            return "queued message still has a %s field" % bad.decode()
    # kept fields in order; everything else must be a documented addition, each exactly once
    kept = ex["kept"]
    ki = 0
    seen_added = []
    for name, rawname, body, rawf in ofields:
        n = name.decode("latin-1")
        if n in ex["added"]:
            # documented additions never share a name with a kept field
            if n in seen_added:
                return "field %s was added twice: %r" % (n, rawf)
            seen_added.append(n)
            if n == "cc" and rawf != b"Cc: recipient list not shown: ;\n":
                return "added Cc field is %r" % rawf
            if n in ("from", "resent-from"):
                try:
                    got = ref.parse_addrlist(body[:-1])
                except ref.ParseError as e:
                    return "generated %s field does not parse (%s): %r" % (n, e, rawf)
                want = [ref.rewrite(ex["from"], ex["ctl"])]
                gotb = [l + b"@" + d if d is not None else l for l, d in got]
                if gotb != want:
                    return "generated %s field lists %r, expected %r (%r)" % (n, gotb, want, rawf)
            if n == "resent-cc":
                try:
                    if ref.parse_addrlist(body[:-1]):
                        return "added Resent-Cc names addresses: %r" % rawf
                except ref.ParseError as e:
                    return "added Resent-Cc does not parse (%s): %r" % (e, rawf)
            continue
        if ki >= len(kept) or kept[ki]["name"].lower() != n:
            return "unexpected field %r in the queued message (kept so far %d of %d, documented additions %r); header names %r" % (
                rawf[:80], ki, len(kept), sorted(ex["added"]), [x.decode("latin-1") for x in onames])
        f = kept[ki]
        ki += 1
        if f["kind"] == "other":
            if rawf != f["raw"]:
                return "field %s was changed: %r -> %r" % (f["name"], f["raw"], rawf)
            continue
        try:
            got = ref.parse_addrlist(body[:-1] if body.endswith(b"\n") else body)
        except ref.ParseError as e:
            return "rewritten %s field does not parse as an RFC 822 address list (%s): %r (input %r)" % (f["name"], e, rawf, f["raw"])
        want = [ref.rewrite(tuple(m), ex["ctl"]) for m in f["mboxes"]]
        gotb = [l + b"@" + d if d is not None else l for l, d in got]
        if gotb != want:
            return "rewritten %s field lists %r, the input field lists (after rewriting) %r; output %r input %r" % (f["name"], gotb, want, rawf, f["raw"])
    if ki != len(kept):
        return "field %s (%r) is missing from the queued message; header names %r" % (kept[ki]["name"], kept[ki]["raw"][:60], [x.decode("latin-1") for x in onames])
    if set(seen_added) != ex["added"]:
        return "documented additions %r, found %r" % (sorted(ex["added"]), sorted(seen_added))
    return None


def unj(sc):
    return vlib.unjson(sc)


def run_one(r, scj, stats):
    """scj = JSON form of the scenario."""
    sc = unj(scj)
    rc, err, recs, msg = r.execute(sc)
    if rc is None:
        stats.inconclusive += 1
        return None
    v = judge(sc, rc, err, recs, msg)
    if sc.get("mfault") is not None:
        # out of memory at one allocation: the documented outcome is a temporary failure with nothing queued; if the program gets through all
        # the same, what it queued is judged like any other run - a message that silently lacks a field's recipients is neither
        committed = [r_ for r_ in recs if r_.get("commit")]
        stats.case(scenario=scj, nontrivial=True, classes=["allocation_failure", "allocation_failure_exit_%s" % rc])
        if rc == 111 and not committed:
            return None
        return v and ("with allocation #%d failing once (exit status %s): " % (sc["mfault"], rc) + v)
    feats = set(sc.get("feats", []))
    allm = [m for f in sc["fields"] for m in f["mboxes"] if m is not None] + sc["args"]
    nt = len(feats & {"comment", "group", "route", "fold", "quoted"}) >= 2 or "quoted" in feats
    classes = ["mode_" + (sc["mode"] or "default")] + [f if f.startswith("excluded_") else "feat_" + f for f in feats]
    names = [f["name"].lower() for f in sc["fields"]]
    if any(n.startswith("resent-") for n in names):
        classes.append("resent")
    if sc["f"] is not None:
        classes.append("opt_f")
    if any(f["kind"] == "returnpath" for f in sc["fields"]):
        classes.append("return_path")
    for c in sc["flags"]:
        classes.append("flag_" + c)
    if any(m[1] is None for m in allm):
        classes.append("lone_box")
    if any(m[1] is not None and m[1].endswith(b"+") for m in allm):
        classes.append("plus_host")
    if any(m[1] is not None and m[1].startswith(b"[") for m in allm):
        classes.append("domain_literal")
    if any(m[1] is not None and b"." not in m[1] and not m[1].endswith(b"+") for m in allm):
        classes.append("nodot_host")
    if sc["f"] is not None and "r" in sc["flags"]:
        stats.slack += 1
    stats.case(scenario=scj, nontrivial=nt, classes=classes)
    return v


def regress_scenarios(rt=False):
    out = []
    d = os.path.join(vlib.VERIF, "corpus", "C17", "regress")
    if os.path.isdir(d):
        for f in sorted(os.listdir(d)):
            if f.endswith(".json"):
                j = json.load(open(os.path.join(d, f)))
                sc = j.get("scenario", j)
                if (sc.get("kind") in ("rt", "rt-crash")) == rt:
                    out.append(sc)
    return out


def worker(job):
    tree, wid, seed, nex, reg = job
    stats = vlib.Stats()
    r = Runner(tree, wid)
    for scj in reg:
        v = run_one(r, scj, stats)
        stats.cls("regress_files")
        if v:
            stats.violations.append((v, scj))
            return stats

    def runfn(sc, stats):
        scj = vlib.jsonable(sc)
        v = run_one(r, scj, stats)
        if not v and len([m for f in sc["fields"] for m in f["mboxes"] if m is not None]) >= 2 and int(vlib.digest(scj)[:4], 16) % 6 == 0:
            # every third allocation of this run failing once (added after seeded change C17-L); the scenario that is reported carries the fault
            for k in range(int(vlib.digest(scj)[4:6], 16) % 3, 75, 3):
                scf = dict(scj, mfault=k)
                v = run_one(r, scf, stats)
                if v:
                    if all(run_one(r, scf, vlib.Stats()) for _ in range(2)):
                        stats.violations.append((v, scf))
                        return None
                    stats.inconclusive += 1
                    v = None
        if v:
            # DESIGN.md section 1: a violation counts only if it reproduces 3/3 (same scenario, fresh processes)
            again = [run_one(r, scj, vlib.Stats()) for _ in range(2)]
            if any(a is None for a in again):
                stats.inconclusive += 1
                stats.cls("unreproducible_violation")
                stats.extra["unreproducible_example"] = {"msg": v[:600], "reruns": [a and a[:200] for a in again], "scenario": scj}
                return None
        return v
    if nex:
        vlib.hyp_search(scenario(), runfn, nex, seed, stats)
    return stats


def run(ctx):
    sandbox.ensure_shim()
    c11_tools.private_tools()
    tree = vlib.Tree()
    only = getattr(ctx, "only", None)
    if not only or "rt" in only:
        run_rt(ctx, tree)
    if not only or "inject" in only:
        tree.make("qmail-inject")
        reg = regress_scenarios()
        nw = vlib.NCPU
        per = ctx.n(4500, 80000)
        jobs = [(tree, i, vlib.subseed(ctx.seed, "c17", i), per, reg[i::nw]) for i in range(nw)]
        ctx.stats.merge(vlib.run_workers(worker, jobs))
    if not only and not ctx.stats.violations:
        need = ["feat_comment", "feat_group", "feat_route", "feat_fold", "feat_quoted", "feat_nocomma", "resent", "opt_f", "return_path",
                "lone_box", "plus_host", "domain_literal", "nodot_host", "mode_a", "mode_h", "mode_H"]
        missing = [c for c in need if not ctx.stats.classes.get(c)]
        if missing:
            raise vlib.HarnessError("GENERATOR-STARVED: classes never produced: %r" % missing)


def replay(ctx, path):
    sandbox.ensure_shim()
    j = json.load(open(path))
    sc = j.get("scenario", j)
    tree = vlib.Tree()
    if isinstance(sc, dict) and sc.get("kind") in ("rt", "rt-crash"):
        binp = build_rt(tree)
        if sc["kind"] == "rt-crash":
            return ["round-trip harness crash recorded: " + sc.get("out", "")[:500]]
        v = replay_rt(binp, bytes.fromhex(sc["local"]))
        return [v] if v else []
    tree.make("qmail-inject")
    r = Runner(tree, "replay")
    v = run_one(r, sc, ctx.stats)
    return [v] if v else []
