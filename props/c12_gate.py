"""C12, concurrency part under the gate scheduler: ALL interleavings (stateless depth-first search over the decision tape) of two real
qmail-local deliveries to one mbox file, each large enough to need several write() calls (message > the 1024-byte output buffer), gated at
open/flock/write/fsync/ftruncate/close of the mbox; and of two/three deliveries to one maildir (gated at tmp/ and new/ operations).
Oracle: both exit 0, the mboxrd reader of mbox.5 returns exactly the delivered messages, each intact (no interleaving of entries);
maildir: distinct names, every entry complete. Called from props/c12.py (run_gate)."""
import os, re, time, hashlib, subprocess, signal
from lib import vlib, sandbox, qworld, gate


def mboxrd_read(data):
    """mbox.5: messages start at lines beginning 'From ' ; one '>' is removed from lines matching >+From_ ; the blank line that ends each
    entry is not part of the message"""
    msgs, cur = [], None
    for line in data.split(b"\n")[:-1] if data.endswith(b"\n") else data.split(b"\n"):
        line += b"\n"
        if line.startswith(b"From "):
            if cur is not None:
                msgs.append(cur)
            cur = []
            continue
        if cur is None:
            return None
        if re.match(rb">+From ", line):
            line = line[1:]
        cur.append(line)
    if cur is not None:
        msgs.append(cur)
    out = []
    for m in msgs:
        b = b"".join(m)
        if not b.endswith(b"\n\n") and b != b"\n":
            return None
        out.append(b[:-1])
    return out


class GW:
    def __init__(self, tree, wid):
        self.tree = tree
        self.h = sandbox.Home(tree, os.path.join(vlib.scratch_root(), "c12g-%s" % wid))
        self.home = os.path.join(self.h.dir, "userhome")
        os.makedirs(self.home, exist_ok=True)
        os.chmod(self.home, 0o755)
        self.sock = os.path.join(self.h.dir, "gate")

    def execute(self, kind, msgs, prefix, fault=None):
        """kind = 'mbox' | 'maildir'. Returns dict(decisions, steps, verdict, inconclusive)"""
        home = self.home
        for root, dirs, files in os.walk(home, topdown=False):
            for f in files:
                os.unlink(os.path.join(root, f))
            for d in dirs:
                os.rmdir(os.path.join(root, d))
        before = b""
        if kind == "mbox":
            before = b"From old@x Thu Jan  1 00:00:00 1970\nold message\n\n"
            open(os.path.join(home, "mbox"), "wb").write(before)
            dd = "./mbox"
            only = "mbox"
        else:
            for d in ("Maildir", "Maildir/tmp", "Maildir/new", "Maildir/cur"):
                os.makedirs(os.path.join(home, d))
            dd = "./Maildir/"
            only = "tmp/,new/,Maildir"
        sched = gate.Scheduler(self.sock)
        procs = []
        out = {"decisions": [], "verdict": None, "inconclusive": False, "steps": []}
        try:
            for i, m in enumerate(msgs):
                mf = os.path.join(self.h.dir, "msg%d" % i)
                open(mf, "wb").write(m)
                env = self.h.env(role="d%d" % i, uid=4242, trace=False, VSHIM_GATE=self.sock, VSHIM_GATE_ONLY=only)
                if fault and fault[0] == i:
                    # this delivery's k-th write()/fsync() to the mailbox fails: it must take back exactly its own bytes, whatever the others did
                    env["VSHIM_FAULT"] = "d%d:%s:%d:%s" % (i, fault[1], fault[2], fault[3])
                    env["VSHIM_FAULT_GEN"] = "0"
                p = subprocess.Popen([self.tree.path("qmail-local"), "--", "user", home, "user", "", "", "host.example", "s%d@sender.example" % i, dd],
                                     stdin=open(mf, "rb"), stdout=subprocess.DEVNULL, stderr=subprocess.DEVNULL, env=env, cwd="/", start_new_session=True)
                procs.append(p)
            t_end = time.time() + gate.WATCHDOG
            while len({x.key.split(".")[0] for x in sched.procs if x.key and x.msg is not None}) < len(msgs):
                sched._pump(0.05)
                if time.time() > t_end:
                    raise qworld.Inconclusive("deliveries did not reach their first gate")
            di = 0
            n = 0
            while True:
                sched.settle()
                en = sched.enabled()
                if not en:
                    if all(x.state == "dead" for x in sched.procs):
                        break
                    raise qworld.Inconclusive("deadlock: %r" % [(x.key, x.state, x.msg) for x in sched.procs if x.state != "dead"])
                n += 1
                if n > 600:
                    raise qworld.Inconclusive("schedule too long")
                if len(en) >= 2:
                    c = prefix[di] if di < len(prefix) else 0
                    c = min(c, len(en) - 1)
                    out["decisions"].append((len(en), c))
                    di += 1
                    pick = en[c]
                else:
                    pick = en[0]
                sched.grant(pick)
            out["steps"] = [(k.split(".")[0], c, kind_) for k, c, pth, kind_ in sched.steps]
            try:
                rcs = [p.wait(timeout=10) for p in procs]
            except subprocess.TimeoutExpired:
                if os.environ.get("C12_GATE_DEBUG"):
                    os.system("for p in $(pgrep -x qmail-local); do echo PID $p; cat /proc/$p/wchan; echo; grep -i 'state\\|ppid' /proc/$p/status; ls -l /proc/$p/fd | tail -6; done")
                    print([(x.key, x.pid, x.state, x.msg) for x in sched.procs])
                raise qworld.Inconclusive("a delivery did not exit after its last gated step")
            okset = [i for i in range(len(msgs)) if not (fault and fault[0] == i)]
            if fault and (rcs[fault[0]] != 111 or any(rcs[i] != 0 for i in okset)):
                out["verdict"] = "deliveries exited %r; documented: 111 for the one whose %s failed, 0 for the others" % (rcs, fault[1])
            elif fault and kind == "mbox":
                data = open(os.path.join(home, "mbox"), "rb").read()
                got = mboxrd_read(data) if data.startswith(before) else None
                want = sorted(expected_entry(i, msgs[i]) for i in okset)
                if got is None or sorted(got[1:]) != want:
                    out["verdict"] = ("a delivery whose %s failed (exit 111) rolled back more or less than its own entry: the mbox reader returns %s, "
                                      "expected the old message and the %d successful deliveries intact (file %d bytes)" % (
                                          fault[1], "garbage" if got is None else [len(x) for x in got], len(okset), len(data)))
            elif any(rc != 0 for rc in rcs):
                out["verdict"] = "concurrent deliveries exited %r (expected all 0)" % rcs
            elif kind == "mbox":
                data = open(os.path.join(home, "mbox"), "rb").read()
                if not data.startswith(before):
                    out["verdict"] = "previous mailbox content was altered"
                else:
                    got = mboxrd_read(data)
                    want = sorted(expected_entry(i, m) for i, m in enumerate(msgs))
                    if got is None or sorted(got[1:]) != want:
                        out["verdict"] = ("mbox reader does not return the delivered messages intact: entries interleaved "
                                          "(file %d bytes, reader returned %s)" % (len(data), "garbage" if got is None else [len(x) for x in got]))
            else:
                names = os.listdir(os.path.join(home, "Maildir", "new"))
                if len(names) != len(set(names)) or len(names) != len(msgs):
                    out["verdict"] = "maildir: %d entries for %d deliveries (%r)" % (len(names), len(msgs), names)
                else:
                    got = sorted(open(os.path.join(home, "Maildir", "new", f), "rb").read() for f in names)
                    want = sorted(expected_entry(i, m) for i, m in enumerate(msgs))
                    if got != want:
                        out["verdict"] = "maildir entries are not the complete delivered messages"
                    if os.listdir(os.path.join(home, "Maildir", "tmp")):
                        pass
        except qworld.Inconclusive as e:
            out["inconclusive"] = True
            out["why"] = str(e)
        finally:
            for p in procs:
                try:
                    p.kill()
                    p.wait()
                except Exception:
                    pass
            sched.close()
        return out


def expected_entry(i, m):
    body = m if m.endswith(b"\n") or not m else m + b"\n"
    return b"Return-Path: <s%d@sender.example>\nDelivered-To: user@host.example\n" % i + body


def dfs(gw, kind, msgs, stats, budget, cls, fault=None):
    prefix = []
    t_end = time.time() + budget
    while True:
        out = gw.execute(kind, msgs, prefix, fault)
        if out["inconclusive"]:
            stats.inconclusive += 1
            return False, None
        key = hashlib.sha1(repr(out["steps"]).encode()).hexdigest()[:16]
        firsts = [s[0] for s in out["steps"]]
        inter = len({firsts[i] for i in range(len(firsts))}) > 1 and any(firsts[i] != firsts[i + 1] for i in range(len(firsts) - 1))
        stats.case(scenario={"kind": kind, "sizes": [len(m) for m in msgs], "tape": [c for _, c in out["decisions"]],
                             "schedule": " ".join("%s.%s%s" % (r, c, "" if k == "REQ" else "*") for r, c, k in out["steps"])},
                   nontrivial=inter, classes=[cls], key=key)
        if out["verdict"]:
            return False, (out["verdict"], {"kind": kind, "msgs": [vlib.jsonable(m) for m in msgs], "tape": [c for _, c in out["decisions"]], "fault": fault})
        dec = out["decisions"]
        i = len(dec) - 1
        while i >= 0 and dec[i][1] + 1 >= dec[i][0]:
            i -= 1
        if i < 0:
            return True, None
        prefix = [c for _, c in dec[:i]] + [dec[i][1] + 1]
        if time.time() > t_end:
            return False, None


def worker(job):
    tree, wid, kind, msgs, budget, cls = job[:6]
    fault = job[6] if len(job) > 6 else None
    stats = vlib.Stats()
    gw = GW(tree, wid)
    ok, viol = dfs(gw, kind, msgs, stats, budget, cls, fault)
    stats.extra["gate_complete_" + cls] = 1 if ok else 0
    if viol:
        stats.violations.append(("C12 gate: " + viol[0], viol[1]))
    return stats


def run_gate(ctx, tree):
    sandbox.ensure_shim()
    big = lambda ch, n: (bytes([ch]) * 70 + b"\n") * (n // 71)
    jobs = [
        (tree, "m2a", "mbox", [big(65, 1500), big(66, 1500)], ctx.n(25, 300), "mbox_2x1500"),
        (tree, "m2b", "mbox", [big(65, 2300) + b"From me\n", b"From x\n" + big(66, 1100) + b"tail without newline"], ctx.n(25, 300), "mbox_2_from_lines"),
        (tree, "m2c", "mbox", [big(65, 200), big(66, 3000)], ctx.n(20, 300), "mbox_small_big"),
        (tree, "m3", "mbox", [big(65, 1300), big(66, 1300), big(67, 1300)], ctx.n(25, 600), "mbox_3x1300"),
        # one of two concurrent mbox deliveries fails at a write or at its fsync: it takes back exactly its own entry under every interleaving
        (tree, "f2a", "mbox", [big(65, 1500), big(66, 1500)], ctx.n(20, 300), "mbox_2_first_write_fails", (0, "write", 0, "28")),
        (tree, "f2b", "mbox", [big(65, 1500), big(66, 1500)], ctx.n(20, 300), "mbox_2_second_write_fails", (1, "write", 1, "28")),
        (tree, "f2c", "mbox", [big(65, 1500), big(66, 300)], ctx.n(20, 300), "mbox_2_fsync_fails", (0, "fsync", 0, "5")),
        (tree, "d2", "maildir", [big(65, 1500), big(66, 100)], ctx.n(20, 300), "maildir_2"),
        (tree, "d3", "maildir", [big(65, 100), big(66, 100), big(67, 100)], ctx.n(20, 600), "maildir_3"),
    ]
    st = vlib.run_workers(worker, jobs)
    ctx.stats.merge(st)
    ctx.notes["gate_interleavings_complete"] = {j[5]: bool(st.extra.get("gate_complete_" + j[5])) for j in jobs}


def replay_gate(tree, sc):
    gw = GW(tree, "replay")
    msgs = [vlib.unjson(m) for m in sc["msgs"]]
    outs = [gw.execute(sc["kind"], msgs, sc["tape"], tuple(sc["fault"]) if sc.get("fault") else None) for _ in range(3)]
    if all(o["verdict"] for o in outs):
        return [outs[0]["verdict"]]
    return []
