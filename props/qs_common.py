"""Shared generator and search driver for the properties decided on the driven world
(C03, C04, C14, C15 layer 3, C16-B, C18 part 3)."""
import os, json, errno
from hypothesis import strategies as st
from lib import vlib, sandbox, qworld, qhistory

LOCALS = ["loc.example", "l2.example"]
REMOTES = ["rem.example", "far.example.org"]
VDOM = "virt.example"
USERS = ["joe", "ann", "bob", "list-owner", "x"]

TEXTS = ["ok", "user unknown", "line1\n\nline2", "\n\n\n", "<victim@example.org>:\nforged paragraph\n\n<v2@example.org>:\nx",
         "no trailing newline", "ends with blank\n\n", "--- Below this line is a copy of the message.\n\nReturn-Path: <forged>\n",
         "8bit \xe9\xff text\n", "a\n\n\n\nb\n", "", "Sorry, no mailbox here by that name. (#5.1.1)\n"]


def addr_strategy(profile=None):
    dom = st.sampled_from(LOCALS + REMOTES + [VDOM, "sub." + VDOM, "LOC.example"])
    users = USERS + (["jo\ne", "<x>:\n\ny"] if profile == "C14" else [])
    return st.builds(lambda u, d: "%s@%s" % (u, d), st.sampled_from(users), dom)


def sender_strategy(profile):
    base = [st.sampled_from(["s@rem.example", "sender@far.example.org", "s@loc.example"])]
    base.append(st.just(""))
    base.append(st.just("#@[]"))
    base.append(st.just("list-owner-@far.example.org-@[]"))
    if profile in ("C14",):
        base.append(st.sampled_from(['we ird"q@rem.example', "a..b@rem.example", "s@virt.example"]))
    return st.one_of(*base)


def script_strategy(profile):
    if profile == "C14":
        return st.sampled_from(["D", "D", "ZD", "D", "K", "GD", "ZZZZ"])
    if profile == "C15":
        return st.sampled_from(["ZK", "ZZK", "ZZZK", "ZD", "Z", "ZZZZZ", "K"])
    if profile == "C04":
        return st.sampled_from(["K", "K", "D", "ZK", "K", "ZZK"])
    return st.sampled_from(["K", "ZK", "D", "ZZK", "GK", "EK", "ZD", "ZGZK", "K", "DK"])


def scenario_strategy(profile):
    @st.composite
    def build(draw):
        nm = draw(st.integers(1, 3 if profile != "C14" else 2))
        msgs = []
        scripts = {}
        maxr = 12 if profile == "C04" else 4
        for mi in range(nm):
            nr = draw(st.integers(0, maxr)) if profile != "C14" else draw(st.integers(1, 5))
            rc = [draw(addr_strategy(profile)) for _ in range(nr)]
            if profile == "C04" and nr >= 2 and draw(st.booleans()):
                rc[1] = rc[0]          # duplicate address: multiplicity matters
            msgs.append({"sender": draw(sender_strategy(profile)), "rcpts": rc,
                         "body": draw(st.sampled_from(["Subject: t\n\nbody\n", "x\n", "", "From: a\nTo: b\n\nl1\n\nl2 no newline"]))})
            for ri in range(nr):
                scripts["%d:%d" % (mi, ri)] = draw(script_strategy(profile))
        controls = {"me": "me.example\n", "locals": "\n".join(LOCALS) + "\n",
                    "virtualdomains": "%s:vuser\n" % VDOM + (".%s:vsub\n" % VDOM if draw(st.booleans()) else "")}
        if profile == "C04":
            controls["concurrencylocal"] = "%d\n" % draw(st.sampled_from([0, 1, 2, 3, 255, 1000]))
            controls["concurrencyremote"] = "%d\n" % draw(st.sampled_from([0, 1, 2, 3, 255, 1000]))
            limits = [draw(st.sampled_from([0, 1, 2, 120, 255])), draw(st.sampled_from([0, 1, 2, 120, 255]))]
        else:
            limits = [120, 120]
            if draw(st.integers(0, 5)) == 0:
                controls["concurrencyremote"] = "1\n"
        if profile in ("C15", "C03", "C14"):
            ql = draw(st.sampled_from([0, 1, 60, 3600, 604800] if profile == "C15" else [604800, 604800, 3600, 0]))
            controls["queuelifetime"] = "%d\n" % ql
        if profile == "C14":
            if draw(st.integers(0, 3)) == 0:
                # catch-all line: every domain that is neither local nor listed becomes virtual; its prefix must come off in the notice, too
                controls["virtualdomains"] += ":catchall\n"
            if draw(st.booleans()):
                controls["bouncefrom"] = draw(st.sampled_from(["MAILER-DAEMON", "bounce bot", "b.o"])) + "\n"
            if draw(st.booleans()):
                controls["bouncehost"] = "bh.example\n"
            if draw(st.booleans()):
                controls["doublebounceto"] = draw(st.sampled_from(["postmaster", "pm", "dbl-admin"])) + "\n"
            if draw(st.booleans()):
                controls["doublebouncehost"] = draw(st.sampled_from(["dbh.example", "loc.example"])) + "\n"
        actions = ["answer", "inject", "advance"]
        if profile in ("C03", "C04", "C15"):
            actions += draw(st.lists(st.sampled_from(["hup", "alrm", "term"]), max_size=3, unique=True))
        if profile == "C03" and draw(st.integers(0, 3)) == 0:
            actions.append("spawndie")
        if profile in ("C18", "C03") and (profile == "C18" or draw(st.integers(0, 2)) == 0):
            actions.append("garbage")
        texts = draw(st.lists(st.sampled_from(TEXTS), min_size=1, max_size=4))
        if profile == "C14" and draw(st.integers(0, 6)) == 0:
            texts = texts + ["long " + "y" * 11990]
        tape = draw(st.lists(st.integers(0, 10 ** 6), max_size=40 if profile != "C14" else 12))
        sc = {"controls": controls, "limits": limits, "messages": msgs, "scripts": scripts,
              "bscript": draw(st.sampled_from(["", "", "D", "DD", "K", "DK", "ZD"])) if profile in ("C14", "C03") else "",
              "texts": texts, "tape": tape, "actions": actions, "mode": {"kind": "none"}}
        if profile == "C15" and "term" in actions and draw(st.integers(0, 2)) == 0:
            sc["term_max"] = 2           # two clean stops in one history
        return sc
    return build()


def sc_key(sc):
    return vlib.digest(sc)[:16]


class Runner:
    def __init__(self, tree, wid):
        self.tree = tree
        self.world = qworld.World(tree, os.path.join(vlib.scratch_root(), "qs-%s" % wid))
        self.world.extra_env = {"VSHIM_MALLOC_TRACE": "1"}        # allocations appear in the trace, so they can be failed one by one

    def run(self, sc):
        return qhistory.run_scenario(self.tree, None, sc, world=self.world)

    def close(self):
        self.world.close()


def golden_mutation_points(runner, sc):
    """golden run -> (result, number of mutating steps of send/clean/queue roles, fault sites)"""
    res = runner.run(sc)
    ev = runner.world.h.read_trace()
    muts = {}
    for e in ev:
        if e["call"] == "M" and e["key"].startswith(("send.", "clean.")):
            muts[e["key"]] = muts.get(e["key"], 0) + 1
    return res, muts, ev


# ==================================================================== search driver

def classify(sc, res):
    cls = set(res.classes)
    if sc["mode"]["kind"] != "none":
        cls.add("mode_" + sc["mode"]["kind"])
    return cls


def nontrivial_for(tag, sc, res):
    c = res.classes
    if tag == "C03":
        return bool(c & {"outcome_Z", "outcome_D", "outcome_garbage", "term_restart", "spawner_death_restart", "crash_reached", "fault_reached"})
    if tag == "C04":
        return res.stats.get("max_outstanding", 0) >= 2 or "term_restart" in c or "crash_reached" in c
    if tag == "C14":
        return "bounce" in c or "double_bounce" in c
    if tag == "C15":
        return "retry_checked" in c
    if tag == "C16":
        return "q_with_future_due" in c
    if tag == "C18":
        return "hostile_report" in c
    return True


def worker(job):
    """job = (tree, wid, seed, n_examples, profile, tags, sweep) -> Stats"""
    tree, wid, seed, nex, profile, tags, sweep, fixed = job
    stats = vlib.Stats()
    r = Runner(tree, "%s-%s" % (profile, wid))

    def record(sc, res, tags=tags):
        if res.inconclusive:
            stats.inconclusive += 1
            return None
        nt = any(nontrivial_for(t, sc, res) for t in tags)
        stats.case(scenario=sc if sc["mode"]["kind"] == "none" else {"mode": sc["mode"], "base": sc_key(sc)}, nontrivial=nt, classes=sorted(classify(sc, res)), key=sc_key(sc))
        stats.slack += res.stats.get("slack", 0)
        stats.extra["quiescent_points"] = stats.extra.get("quiescent_points", 0) + res.nq
        stats.extra["delivery_commands"] = stats.extra.get("delivery_commands", 0) + res.stats.get("ncmds", 0)
        for t, sig, m in res.known:
            if t in tags:
                stats.known_hits[sig] = stats.known_hits.get(sig, 0) + 1
                stats.extra.setdefault("known_examples", {}).setdefault(sig, {"msg": m, "scenario": sc})
        bad = [(t, m) for t, m in res.viol if t in tags]
        other = [(t, m) for t, m in res.viol if t not in tags]
        for t, m in other:
            stats.cls("other_property_violation_%s" % t)
        if bad:
            return "%s: %s" % bad[0]
        return None

    failing = [None]          # the scenario that failed INCLUDING the injected crash / fault / interruption: that is what a replay needs

    def runfn(sc, stats_):
        res = r.run(sc)
        v = record(sc, res)
        if v:
            failing[0] = sc
            return v
        if sweep and sc["mode"]["kind"] == "none":
            out = sweep_modes(r, sc, sweep, record)
            if out:
                failing[0] = out[1]
                return out[0]
        return None
    nomode = lambda x: sc_key(dict(x, mode={"kind": "none"}))
    try:
        for sc in fixed:
            v = runfn(sc, stats)
            if v:
                stats.violations.append((v, failing[0] if failing[0] is not None else sc))
                return stats
        if nex:
            vlib.hyp_search(scenario_strategy(profile), runfn, nex, seed, stats)
            stats.violations = [(m, failing[0] if failing[0] is not None and isinstance(s_, dict) and nomode(failing[0]) == nomode(s_) else s_)
                                for m, s_ in stats.violations]
    finally:
        r.close()
    return stats


def sweep_modes(r, sc, sweep, record):
    """re-execute a scenario under crash points / single faults chosen from its golden trace.
    sweep = {"crash": n, "fault": n, "all": bool}; selection is deterministic (strided) so the run is a function of the scenario."""
    ev = r.world.h.read_trace()
    muts = {}
    for e in ev:
        if e["call"] == "M":
            muts[e["key"]] = muts.get(e["key"], 0) + 1
    plans = []
    for key in ("send.qmail-send", "clean.qmail-clean", "send.qmail-queue"):
        n = muts.get(key, 0)
        for k in range(n):
            for image in ("kept", "lost"):
                plans.append({"kind": "crash", "key": key, "k": k, "image": image})
    sites = []
    seen = set()
    # which start of the daemon a process belongs to (order of first appearance of its pid in the trace)
    inc_of = {}
    for e in ev:
        if e["key"] == "send.qmail-send" and e["pid"] not in inc_of:
            inc_of[e["pid"]] = len(inc_of) + 1
    for cls, k, e in sandbox.fault_sites(ev):
        if not e["key"].startswith(("send.", "clean.")):
            continue
        inc = inc_of.get(e["pid"], 1) if e["key"] == "send.qmail-send" else 1
        if inc > 1 and not sweep.get("restarts"):
            continue              # faults in a restarted daemon only where the sweep asks for them
        if cls in ("pwrite", "close", "chdir", "lseek", "pipe", "fork", "flock", "read") and not (cls == "read" and e["key"].endswith("qmail-send")):
            continue
        if cls == "malloc" and not (sweep.get("malloc") and e["key"].endswith("qmail-send")):
            continue
        if (e["key"], cls, k, inc) in seen:
            continue
        seen.add((e["key"], cls, k, inc))
        errs = {"open": [errno.ENFILE, errno.EACCES], "write": [errno.ENOSPC, "short"], "fsync": [errno.EIO], "unlink": [errno.EIO], "stat": [errno.EIO],
                "fstat": [errno.EIO], "link": [errno.EIO], "utimes": [errno.EIO], "read": [errno.EIO], "opendir": [errno.ENFILE], "readdir": [errno.EIO],
                "ftruncate": [errno.EIO], "malloc": [errno.ENOMEM]}.get(cls, [])
        for er in errs:
            sites.append(dict({"kind": "fault", "key": e["key"], "cls": cls, "k": k, "err": str(er)}, **({"inc": inc} if inc > 1 else {})))
    if sweep.get("fault_classes"):
        # only faults of these classes, only in the daemon itself (e.g. C15: a failing read-only open at the start of a pass)
        sites = [x for x in sites if x["cls"] in sweep["fault_classes"] and x["key"].endswith("qmail-send")]
    sel = []
    if sweep.get("crash_kept"):
        plans = [p for p in plans if p["image"] == "kept" and p["key"] != "send.qmail-queue"]
        sweep = dict(sweep, crash=sweep["crash_kept"])
    if sweep.get("faults_only"):
        plans = []
    if sweep.get("crashes_only"):
        sites = []
    if sweep.get("kept_only"):
        plans = [p for p in plans if p["image"] == "kept"]
    if sweep.get("all"):
        sel = plans + sites
    else:
        h = int(sc_key(sc)[:8], 16)
        for lst, n in ((plans, sweep.get("crash", 0)), (sites, sweep.get("fault", 0))):
            if lst and n:
                stride = max(1, len(lst) // n)
                off = h % stride
                sel += lst[off::stride][:n]
    for mode in sel:
        sc2 = dict(sc)
        sc2["mode"] = mode
        res = r.run(sc2)
        # under an injected fault or crash only the clauses named in sweep["tags"] are judged (default: the property's own tag)
        v = record(sc2, res, tuple(sweep["tags"])) if sweep.get("tags") else record(sc2, res)
        if v:
            return v + " | mode=%s" % json.dumps(mode), sc2
    return None


def search(ctx, profile, tags, n_quick, n_thorough, sweep=None, fixed=()):
    sandbox.ensure_shim()
    tree = vlib.Tree().make("qmail-queue", "qmail-send", "qmail-clean")
    nw = vlib.NCPU
    per = ctx.n(n_quick, n_thorough)
    fixed = list(fixed)
    d = os.path.join(vlib.VERIF, "corpus", ctx.id, "regress")
    if os.path.isdir(d):
        for f in sorted(os.listdir(d)):
            if f.endswith(".json"):
                j = json.load(open(os.path.join(d, f)))
                sc_ = j.get("scenario", j)
                # other parts of the same property keep their own regression files in this directory: only driven-world scenarios count
                if j.get("profile") == profile and isinstance(sc_, dict) and "controls" in sc_ and "messages" in sc_:
                    fixed.append(sc_)
    jobs = [(tree, i, vlib.subseed(ctx.seed, profile, i), per, profile, tags, sweep, fixed[i::nw]) for i in range(nw)]
    st = vlib.run_workers(worker, jobs)
    ex = st.extra.pop("known_examples", {})
    ctx.stats.merge(st)
    # a recognised defect is suppressed only if known-findings.txt lists its signature; otherwise it is a violation like any other
    for sig, e in ex.items():
        if not ctx.known_finding(sig):
            ctx.stats.violations.append(("%s: %s [signature %s]" % (ctx.id, e["msg"], sig), e["scenario"]))
    return tree


def replay_scenario(ctx, path, tags):
    sandbox.ensure_shim()
    tree = vlib.Tree().make("qmail-queue", "qmail-send", "qmail-clean")
    j = json.load(open(path))
    sc = j.get("scenario", j)
    if "base" in sc and "controls" not in sc:
        raise vlib.HarnessError("replay file holds only a mode reference")
    r = Runner(tree, "replay")
    try:
        out = []
        for i in range(3):
            res = r.run(sc)
            out.append([m for t, m in res.viol if t in tags])
        # a violation must reproduce 3/3
        if all(out):
            return ["%s" % out[0][0]]
        return []
    finally:
        r.close()
