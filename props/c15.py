"""C15 - Retries back off quadratically, expire with the queue lifetime, earliest first.
Layer 1+2 (arithmetic, priority queue; in-process, props/c15_arith.py) and layer 3 (daemon histories under the virtual clock)."""
import importlib
from lib import vlib
from props import qs_common as q
LEVEL = "exploration"
RULE = ("Layer 1: squareroot() on every x with |x-k^2|<=2 plus 10^7 random x (quick) / ALL x in [0,2^32) (thorough) against r^2<=x<(r+1)^2 in "
        "128-bit integers, nextretry() on a dense (birth, now, channel) grid. Layer 2: prioq: all operation sequences over {insert 0..3, delmin} "
        "up to length 9 plus long random sequences against a sorted-multiset model, allocation-failure injection. Layer 3: daemon histories with "
        "Z^k then K/D scripts, queuelifetime in {0,1,60,3600,604800}, clock stepped partially and to each deadline, TERM+restart, ALRM: no pass "
        "of (message, channel) starts before birth+(isqrt(age)+10|20)^2 fixed at the previous pass, retry time strictly in the future, due "
        "messages with a free slot are attempted before the daemon blocks with a positive timeout, Z in a pass started after birth+lifetime is "
        "bounced with the documented sentence, every message leaves the queue within the step bound. Non-trivial (layer 3) = a retry interval was "
        "checked; distinct = scenario digest (layers 1-2 counted exactly by the C harness).")
ASSUMPTIONS = ["the virtual clock is frozen between quiescent points (time() = base + driver-controlled offset); message birth is read from mtime(info/<n>) like the daemon does"]
TAGS = ("C15",)
CTL = {"me": "me.example\n", "locals": "loc.example\n"}


def fx(msgs, scripts, tape, actions, ctl=None):
    return {"controls": dict(CTL, **(ctl or {})), "limits": [120, 120], "messages": msgs, "scripts": scripts, "bscript": "", "texts": ["ok"],
            "tape": tape, "actions": actions, "mode": {"kind": "none"}}


# histories that every run executes: ALRM with idle retry-waiting messages on both channels, TERM between Z and retry, expiry
FIXED = [
    fx([{"sender": "s@rem.example", "rcpts": ["joe@loc.example", "r@rem.example"], "body": "x\n"}], {"0:0": "ZK", "0:1": "ZK"},
       [0, 0, 0, 0, 0, 0, 2, 0], ["answer", "inject", "advance", "alrm"]),
    fx([{"sender": "s@rem.example", "rcpts": ["joe@loc.example"], "body": "x\n"}, {"sender": "t@rem.example", "rcpts": ["r@rem.example"], "body": "y\n"}],
       {"0:0": "ZZK", "1:0": "ZK"}, [0, 0, 0, 0, 0, 0, 0, 0, 4, 0], ["answer", "inject", "advance", "alrm", "term"]),
    fx([{"sender": "s@rem.example", "rcpts": ["joe@loc.example", "ann@loc.example"], "body": "x\n"}], {"0:0": "ZZZ", "0:1": "ZZZZ"},
       [], ["answer", "inject", "advance"], {"queuelifetime": "60\n"}),
    fx([{"sender": "s@rem.example", "rcpts": ["r@rem.example"], "body": "x\n"}], {"0:0": "ZZ"}, [], ["answer", "inject", "advance"], {"queuelifetime": "0\n"}),
    # an old message dies in a job slot, then a YOUNG message is served from the same slot and gets a temporary failure: it must be deferred
    fx([{"sender": "s@rem.example", "rcpts": ["joe@loc.example"], "body": "x\n"}, {"sender": "t@rem.example", "rcpts": ["ann@loc.example"], "body": "y\n"}],
       {"0:0": "ZZ", "1:0": "ZK"}, [0, 0, 0, 0, 1, 0, 0, 0, 0, 0, 0, 0, 0, 0], ["answer", "inject", "advance"], {"queuelifetime": "60\n"}),
]


# ALRM makes a waiting message due, and TERM arrives before the (saturated) channel has picked it up: the restarted daemon tries it at once.
# The stop before that one has stamped the FUTURE retry time on the file, so a stop that does not write the pulled-forward time shows
# (added after seeded change C15-I)
def two_stops(addr0, addr1, key, extra_plan=()):
    sc = fx([{"sender": "s@rem.example", "rcpts": [addr0], "body": "x\n"}, {"sender": "t@rem.example", "rcpts": [addr1], "body": "y\n"}],
            {"0:0": "ZZZK", "1:0": "ZZZK"}, [], ["answer", "inject", "advance", "alrm", "term"], {key: "1\n"})
    sc["plan"] = ["inject", "inject", "answer", "answer", "term"] + list(extra_plan) + ["alrm", "term", "answer"]
    sc["term_max"] = 2
    return sc


FIXED += [two_stops("r@rem.example", "q@rem.example", "concurrencyremote"), two_stops("joe@loc.example", "ann@loc.example", "concurrencylocal"),
          two_stops("r@rem.example", "q@rem.example", "concurrencyremote", ["advance_part:150"]),
          two_stops("joe@loc.example", "ann@loc.example", "concurrencylocal", ["advance_part:30"])]


def run(ctx):
    try:
        arith = importlib.import_module("props.c15_arith")
    except ImportError:
        arith = None
    if arith is not None and (ctx.only is None or "arith" in ctx.only):
        arith.run_arith(ctx)
    else:
        ctx.stats.cls("arith_layer_missing")
    if ctx.only is None or "daemon" in ctx.only:
        # every history is re-run with single failing read-only open()s of the daemon taken from its own trace (the start of a pass opens
        # info/<n> and local|remote/<n>); under a fault only "no pass before the back-off time" is judged - the "promptly" clauses are
        # legitimately delayed by the documented 123 s system-failure pause (added after seeded change C15-C)
        q.search(ctx, "C15", TAGS, 70, 1000, fixed=FIXED, sweep={"fault": 3, "faults_only": True, "fault_classes": ["open"], "tags": ["C15-early"]})


def replay(ctx, path):
    if path.endswith(".json"):
        return q.replay_scenario(ctx, path, TAGS)
    arith = importlib.import_module("props.c15_arith")
    return arith.replay_arith(ctx, path)
