"""C08 - SMTP transactions are well-sequenced and relaying is gated by policy.

The real qmail-smtpd runs under the shim with $QMAILQUEUE = scripted stand-in.  Hypothesis generates a configuration
(rcpthosts absent/empty/entries with comments and trailing blanks, morercpthosts compiled by the tree's own qmail-newmrh,
badmailfrom, localiphost, me, RELAYCLIENT) over a pool of six labels so that exact entries, dot-suffix wildcards and near
misses (extra label, missing label, glued prefix, other case, trailing dot) all occur, and a command sequence of up to 14
commands (random case, CR LF or LF, address arguments rendered from an intended address by a grammar: brackets, source routes,
quoted and backslash-escaped local parts, bracketless form, ESMTP parameters, IP literals, lengths 897..902, plus arguments
outside the grammar).  Oracle = the transaction model of qmail-smtpd.8 / DESIGN.md 5/C08 in props/smtp_common.py (SmtpModel):
reply class of every command, and for every DATA answered 250 the committed envelope = (sender of the most recent MAIL, exactly
the RCPTs answered 250 since it, in order); nothing is ever committed otherwise.

Left out relative to the design: the session is always fed as one pipelined stream (no generated write boundaries / lock-step
dialogue); RELAYCLIENT values are limited to unset, "" and two suffixes.

Open finding (not in known-findings.txt, therefore excluded from generation by construction and counted as
excluded_ip_literal_octet_over_255; reproduction in corpus/C08/findings/): `RCPT TO:<u@[127.0.0.257]>` (any octet n with
n mod 256 giving a local address, e.g. [383.0.0.1]) is treated as the local address 127.0.0.1, rewritten to u@localiphost and
accepted, although the domain is neither a local IP address nor listed in rcpthosts (ip_scan() has no range check).

Slack that is counted: arguments outside the grammar; [0.0.0.0] and literals with leading zeros (local or not: either);
localiphost substitution in the *sender* (documented for recipients only: either form); badmailfrom matches that differ in case
only; address lengths 899..900; whether a refused MAIL discards the open transaction."""
import os, json
from lib import vlib, sandbox
from props import smtp_common as M
from props.smtp_common import B, J
from hypothesis import strategies as st

LEVEL = "exploration"
RULE = ("One case = one configuration x one pipelined SMTP session of <= 14 commands built from transaction skeletons (MAIL, RCPTs, "
        "optional interloper, DATA) and free commands; a deterministic grid of the classic orders (MAIL RCPT MAIL RCPT DATA, MAIL HELO RCPT, "
        "DATA twice, ...) x policies comes first.  Non-trivial: the session has >= 1 accepted and >= 1 refused RCPT, or a "
        "transaction-resetting command (HELO, EHLO, RSET, MAIL) arrived while a transaction was open.  distinct = digest of the scenario.")
ASSUMPTIONS = ["the intended address of an argument is known by construction of the generator (grammar of DESIGN 5/C08); arguments outside the grammar only get the invariants",
               "127.0.0.1 is a local address of the test host (verified at run time from Python), the 'foreign' literal is chosen outside the host's addresses",
               "reply classes (first digit) are compared, exact codes are not documented",
               "the Hypothesis part runs in fixed-size rounds with seeds derived from VERIF_SEED; the number of rounds (between a fixed minimum and maximum) adapts to the load of the machine, no verdict depends on time",
               "checks run as root in the sandbox; identity is virtualised by the LD_PRELOAD shim"]

KNOWN_SIGS = ("ip_literal_octet_over_255",)
LISTED = set()

LABELS = [b"a", b"b", b"mail", b"example", b"org", b"x"]


# =============================================================================================== generators

def case_var(b, k):
    return M.casemix(b, k)


def g_domain(t):
    return b".".join(t.pick(LABELS) for _ in range(t.pick([2, 1, 2, 3, 3])))


def g_blanks(t):
    return t.pick([b"", b"", b"", b" ", b"\t", b"  \t"])


def g_config(t):
    doms = [g_domain(t) for _ in range(t.rng(1, 4))]
    kind = t.pick(["entries", "absent", "empty", "entries", "entries", "entries"])
    ctl = {"me": J(t.pick([b"me.example", b"mail.example.org"]))}
    entries = []
    if kind == "absent":
        ctl["rcpthosts"] = None
    elif kind == "empty":
        ctl["rcpthosts"] = [J(x) for x in t.pick([[], [b"# nothing here"], [b""]])]
    else:
        lines = []
        for d in doms[:t.rng(1, len(doms))]:
            e = (b"." if t.flag() else b"") + case_var(d, t.pick([0, 0, 8191, 0x2aa]))
            entries.append(e)
            lines.append(e + g_blanks(t))
            if t.flag(1, 4):
                lines.append(b"#" + g_domain(t))
        ctl["rcpthosts"] = [J(x) for x in lines]
    more = []
    if t.flag():
        for _ in range(t.n(4)):
            more.append((b"." if t.flag() else b"") + case_var(g_domain(t), t.pick([0, 0, 8191])))
        ctl["morercpthosts"] = [J(e + g_blanks(t)) for e in more]
    else:
        ctl["morercpthosts"] = None
    lip = g_domain(t) if t.flag() else None
    ctl["localiphost"] = None if lip is None else J(lip)
    bad_senders = []
    if t.flag(2, 3):
        bmf = []
        for _ in range(t.rng(1, 3)):
            d = g_domain(t)
            if t.flag():
                e = b"@" + d
                bad_senders.append(t.pick([b"spam", b"joe"]) + b"@" + d)
            else:
                e = t.pick([b"spam", b"Bad.Guy", b"joe"]) + b"@" + d
                bad_senders.append(e)
            bmf.append(e + g_blanks(t))
        if t.flag():
            bmf.append(b"#" + t.pick([b"joe", b"ann"]) + b"@" + g_domain(t))
        ctl["badmailfrom"] = [J(x) for x in bmf]
    else:
        ctl["badmailfrom"] = None
    if t.flag(1, 3):
        ctl["nonl"] = sorted({t.pick(["rcpthosts", "badmailfrom", "morercpthosts", "me", "localiphost"]) for _ in range(t.rng(1, 2))})
    relay = t.pick([None, None, None, b"", b"@relay.example", b".suffix"])
    pool = {"entries": entries + (more if kind != "absent" else []), "doms": doms, "bad_senders": bad_senders,
            "liphost": lip if lip is not None else B(ctl["me"])}
    return ctl, relay, pool


def near_domains(e):
    """Domains derived from a list entry: the exact one, with an extra label, without the first label, glued, other case, trailing dot."""
    d = e[1:] if e.startswith(b".") else e
    out = [d, b"x." + d, b"a.b." + d, b"x" + d, case_var(d, 8191), case_var(d, 0x155), d + b".", M.alower(d)]
    if b"." in d:
        out.append(d.split(b".", 1)[1])
    return out


def g_rcpt_domain(t, pool, foreign):
    k = t.pick(["near", "near", "near", "rand", "lip", "iplocal", "ipforeign", "ipzero", "ipbig", "ipnear"])
    if k == "near" and pool["entries"]:
        return t.pick(near_domains(t.pick(pool["entries"]))), None
    if k == "lip":
        return pool["liphost"], None
    if k == "iplocal":
        return b"[127.0.0.1]", None
    if k == "ipforeign":
        return b"[" + foreign + b"]", None
    if k == "ipzero":
        return b"[0.0.0.0]", None
    if k == "ipbig":
        # defect class ip_literal_octet_over_255: generated only when listed in known-findings.txt
        if True:          # defect repaired by fix: d717745 (ip_scan range check): the class is always generated, nothing is suppressed
            return t.pick([b"[127.0.0.257]", b"[383.0.0.1]"]), None
        return b"[127.0.0.1]", "excluded_ip_literal_octet_over_255"
    if k == "ipnear":
        return t.pick([b"[127.0.0.1]x", b"[127.0.0.1", b"127.0.0.1", b"[127.0.0]", b"[127.0.0.1.]"]), None
    return g_domain(t), None


PLAIN = b"abcdefghijklmnopqrstuvwxyz0123456789.+=-_"
SPECIAL = b" @\"\\><,:;()[]"


def g_localpart(t):
    k = t.pick(["known", "plain", "plain", "plain", "special"])
    if k == "known":
        return t.pick([b"joe", b"spam", b"Bad.Guy", b"postmaster", b"ann"])
    if k == "plain":
        return t.bytes(1, 8, PLAIN)
    return t.bytes(1, 8, PLAIN + SPECIAL * 2)


def needs_quote(local):
    return any(c in SPECIAL for c in local)


def render_local(local, how):
    if how == "quoted":
        return b'"' + local.replace(b"\\", b"\\\\").replace(b'"', b'\\"') + b'"'
    out = bytearray()
    for c in local:
        if c in SPECIAL:
            out.append(92)
        out.append(c)
    return bytes(out)


JUNK = [b"<\"abc@a.example>", b"<joe@a.example", b"joe@a.example>", b"<<joe@a.example>>", b"", b"<joe\\", b"<\"a\"b\"@x>", b"<@a:>", b"< joe@a.example >",
        b"<joe@a\0.example>", b"<joe@a.example> <ann@b.example>"]


def g_address_arg(t, role, pool, foreign):
    """-> (argument text after 'FROM:'/'TO:', intended address or None when outside the grammar, exclusion tag or None)"""
    excl = None
    form = t.pick(["br"] * 10 + ["bare", "bare", "route", "route", "long", "long", "empty", "noat", "junk", "junk"])
    if form == "empty":
        return b"<>", b"", None
    if form == "junk":
        return t.pick(JUNK), None, None
    local = g_localpart(t)
    if role == "mail" and pool["bad_senders"] and t.flag(1, 3):
        full = t.pick(pool["bad_senders"])
        v = t.pick([0, 0, 0, 1, 2])
        if v == 1:
            full = case_var(full, 8191)
        elif v == 2:
            full = b"x" + full
        local, dom = full.rsplit(b"@", 1)
    elif form == "noat":
        dom = None
    else:
        dom, excl = g_rcpt_domain(t, pool, foreign)
    if form == "long":
        target = t.pick([897, 898, 899, 900, 901, 902, 950])
        dlen = 0 if dom is None else len(dom) + 1
        local = b"l" * max(1, target - dlen)
    intended = local if dom is None else local + b"@" + dom
    if form == "bare":
        if needs_quote(local) or b"<" in intended or b" " in intended:
            form = "br"
        else:
            return intended + t.pick([b"", b" SIZE=10", b" BODY=8BITMIME X=y"]), intended, excl
    if needs_quote(local):
        how = "quoted" if t.flag() else "bslash"
    else:
        how = "quoted" if t.flag(1, 4) else "bslash"
    text = render_local(local, how) + (b"" if dom is None else b"@" + dom)
    route = b""
    if form == "route":
        route = t.pick([b"@r1.example:", b"@r1.example,@r2.example:", b"@[10.0.0.1],@x:"])
    par = t.pick([b"", b"", b" SIZE=10", b" BODY=8BITMIME", b" FOO=<bar>"])
    return b"<" + route + text + b">" + par, intended, excl


def g_eol(t):
    return t.pick([b"\r\n", b"\r\n", b"\n"])


def g_verb(t, name):
    return case_var(name, t.pick([8191, 0, 8191, 0x155, 0x2aa, 0x1f]))


SAFE_BODIES = [b"Subject: hi\n\nhello\n", b"x\n", b"", b"To: a\nReceived: by x\n\n.leading dot\n..\n", b"line one\nline two\nno newline"]
UNKNOWN = [b"XYZZY", b"MAILX FROM:<a@b>", b"RCPTT TO:<a@b>", b"HELLO x", b"", b"STARTTLS", b"AUTH PLAIN AGEAYg==", b"DATAX", b"TURN", b"mai", b".", b"EXPN list"]


def g_cmd(t, ty, pool, foreign, excl_out):
    if ty in ("helo", "ehlo"):
        return {"t": ty, "line": J(g_verb(t, ty.encode()) + b" " + t.pick([b"client.example", b"[192.0.2.1]", b"x"]) + g_eol(t))}
    if ty in ("mail", "rcpt"):
        arg, intended, ex = g_address_arg(t, ty, pool, foreign)
        if ex:
            excl_out.append(ex)
        kw = case_var(b"from:" if ty == "mail" else b"to:", t.pick([8191, 0, 5]))
        sp = t.pick([b" ", b" ", b"  "])
        return {"t": ty, "line": J(g_verb(t, ty.encode()) + sp + kw + arg + g_eol(t)), "addr": None if intended is None else J(intended)}
    if ty == "data":
        return {"t": "data", "line": J(g_verb(t, b"data") + g_eol(t)), "wire": J(M.smtp_encode(t.pick(SAFE_BODIES)))}
    if ty == "unknown":
        return {"t": "unknown", "line": J(t.pick(UNKNOWN) + g_eol(t))}
    if ty == "vrfy":
        return {"t": "vrfy", "line": J(g_verb(t, b"vrfy") + b" " + t.pick([b"joe", b"<joe@a.example>", b""]) + g_eol(t))}
    arg = b"" if ty != "noop" else t.pick([b"", b" ignored"])
    return {"t": ty, "line": J(g_verb(t, ty.encode()) + arg + g_eol(t))}


FREE = ["helo", "ehlo", "mail", "rcpt", "rcpt", "data", "rset", "noop", "vrfy", "help", "unknown", "quit"]
INTERLOPERS = ["helo", "ehlo", "rset", "mail", "noop", "vrfy", "help", "unknown", "data"]
QQS = [{"mode": "qq", "exit": 0}] * 6 + [{"mode": "qq", "exit": [0, 31, 0]}, {"mode": "qq", "exit": [71, 0]}, {"mode": "real"}]


def g_scenario(tape_bytes, foreign):
    t = M.Tape(tape_bytes)
    ctl, relay, pool = g_config(t)
    cmds = []
    excl = []
    if t.flag():
        cmds.append(g_cmd(t, t.pick(["helo", "ehlo"]), pool, foreign, excl))
    while len(cmds) < 14:
        seg = t.pick(["stop", "txn", "txn", "txn", "free", "free"])
        if seg == "stop":
            if len(cmds) >= 2:
                break
            seg = "txn"
        if seg == "txn":
            cmds.append(g_cmd(t, "mail", pool, foreign, excl))
            for _ in range(t.pick([1, 0, 1, 2, 2, 3])):
                cmds.append(g_cmd(t, "rcpt", pool, foreign, excl))
            if t.flag(1, 3):
                cmds.append(g_cmd(t, t.pick(INTERLOPERS), pool, foreign, excl))
                for _ in range(t.pick([1, 0, 1, 2])):
                    cmds.append(g_cmd(t, "rcpt", pool, foreign, excl))
            if t.flag(3, 4):
                cmds.append(g_cmd(t, "data", pool, foreign, excl))
        elif seg == "free":
            cmds.append(g_cmd(t, t.pick(FREE), pool, foreign, excl))
        if t.i >= len(t.b):
            break
    cmds = cmds[:14]
    sc = {"d": "smtpd", "env": {"RELAYCLIENT": None if relay is None else J(relay), "TCPREMOTEIP": J(b"192.0.2.77")}, "ctl": ctl, "db": None,
          "qq": t.pick(QQS), "cmds": cmds, "cut": None}
    if excl:
        sc["excl"] = excl
    if t.flag(1, 6):
        # one system call of the daemon fails once (interface lookup, control-file open/read, network read): it may refuse or give up, but
        # whatever it accepts must still obey the rules (added after seeded change C08-D)
        sc["sysfault"] = {"cls": t.pick(["socket", "open", "open", "read", "read", "open"]), "k": t.pick(list(range(14))),
                          "errno": t.pick([23, 5, 13, 12])}
        if sc["sysfault"]["cls"] in ("socket", "open") and t.flag():
            sc["sysfault"]["persist"] = True        # the condition lasts (descriptor table full): every later call of the class fails too
    return sc


def scenario_st(foreign):
    return st.binary(min_size=640, max_size=640).map(lambda b: g_scenario(b, foreign))


# =============================================================================================== deterministic grid

def L(t, text, addr=None, **kw):
    d = {"t": t, "line": J(text + b"\r\n")}
    if t in ("mail", "rcpt"):
        d["addr"] = None if addr is None else J(addr)
    d.update(kw)
    return d


def grid(foreign):
    out = []
    body = J(M.smtp_encode(b"Subject: t\n\nbody\n"))
    D = lambda: {"t": "data", "line": J(b"DATA\r\n"), "wire": body}
    mail = lambda a=b"s@x.org": L("mail", b"MAIL FROM:<" + a + b">", a)
    rcpt = lambda a: L("rcpt", b"RCPT TO:<" + a + b">", a)
    ok1, ok2, no1 = b"u1@a.example", b"u2@sub.b.example", b"u3@evil.org"
    ctl0 = {"me": J(b"me.example"), "rcpthosts": [J(b"a.example"), J(b".b.example"), J(b"me.example")], "morercpthosts": [J(b"more.org"), J(b".wild.org")],
            "badmailfrom": [J(b"spam@x.org"), J(b"@bad.org")], "localiphost": None}
    seqs = {
        "mail_rcpt_mail_rcpt_data": [mail(), rcpt(ok1), mail(b"t@x.org"), rcpt(ok2), D()],
        "mail_helo_rcpt": [mail(), L("helo", b"HELO x"), rcpt(ok1), D()],
        "mail_ehlo_rcpt": [mail(), rcpt(ok1), L("ehlo", b"EHLO x"), rcpt(ok2), D()],
        "mail_rset_rcpt": [mail(), rcpt(ok1), L("rset", b"RSET"), rcpt(ok2), D()],
        "data_twice": [mail(), rcpt(ok1), D(), D(), rcpt(ok2), D()],
        "data_then_rcpt": [mail(), rcpt(ok1), D(), rcpt(ok2), mail(), D()],
        "mixed_rcpts": [mail(), rcpt(ok1), rcpt(no1), rcpt(ok2), rcpt(b"u4@xa.example"), rcpt(b"u5@b.example"), rcpt(b"noat"), D()],
        "case_and_more": [mail(), rcpt(b"u@A.EXAMPLE"), rcpt(b"u@MORE.ORG"), rcpt(b"u@x.WILD.org"), rcpt(b"u@wild.org"), rcpt(b"u@xmore.org"), rcpt(b"u@more.org."), D()],
        "bmf": [mail(b"spam@x.org"), rcpt(ok1), D(), mail(b"joe@bad.org"), rcpt(ok1), D(), mail(b"joe@x.org"), rcpt(ok1), D()],
        "iplit": [mail(), rcpt(b"u@[127.0.0.1]"), rcpt(b"u@[" + foreign + b"]"), rcpt(b"u@[127.0.0.1]x"), D()],
        "long": [mail(), rcpt(b"l" * 886 + b"@a.example"), rcpt(b"l" * 891 + b"@a.example"), rcpt(b"l" * 940 + b"@a.example"), rcpt(ok1), D()],
        "longmail": [mail(), rcpt(ok1), mail(b"l" * 940 + b"@x.org"), rcpt(ok2), D()],
        "noop_between": [mail(), rcpt(ok1), L("noop", b"NOOP"), L("vrfy", b"VRFY x"), L("help", b"HELP"), L("unknown", b"XYZZY"), rcpt(ok2), D(), L("quit", b"QUIT"), mail()],
        "rcpt_first": [rcpt(ok1), D(), mail(), D(), rcpt(ok1), D()],
        "failed_data_ends_txn": [mail(), rcpt(ok1), D(), rcpt(ok1), D()],
        # a recipient list that has to grow many times (28 addresses of ~100 bytes, then short ones), for the allocation failures below
        "many_rcpts": [mail()] + [rcpt(b"recipient-%02d-" % i + b"x" * 80 + b"@a.example") for i in range(28)] + [rcpt(b"l@a.example"), rcpt(ok1), D(), mail(), rcpt(ok2), D()],
    }
    # the length limit meets the localiphost rule: the literal is replaced by a LONGER (30 bytes) or SHORTER (3 bytes) name, so the address as
    # typed and the address as stored lie on different sides of the limit (added after seeded change C08-E)
    for lip, deltas in ((b"mail.local-host-name.a.example", range(-22, 4)), (b"a.b", range(-2, 12))):
        ctl = dict(ctl0, localiphost=J(lip), rcpthosts=[J(b"a.example"), J(b".a.example"), J(lip)])
        for dl in deltas:
            local = b"l" * (898 + dl - len(b"@[127.0.0.1]"))
            out.append({"d": "smtpd", "env": {"RELAYCLIENT": None}, "ctl": ctl, "db": None, "qq": {"mode": "qq", "exit": 0},
                        "cmds": [mail(), rcpt(local + b"@[127.0.0.1]"), rcpt(ok1), D()], "cut": None, "grid": "limit_vs_localiphost"})
    # every letter of the alphabet in a list entry meets its other case in the address (rcpthosts, morercpthosts, badmailfrom)
    pan = b"quick-brown-fox.jumps-over.lazy-dog.vwxyz.example"
    for key, addr in ((pan, pan.upper()), (pan.upper(), pan), (pan.title(), pan.swapcase())):
        for ctl in (dict(ctl0, rcpthosts=[J(key)], morercpthosts=None), dict(ctl0, rcpthosts=[J(b"." + key)], morercpthosts=None),
                    dict(ctl0, rcpthosts=[], morercpthosts=[J(key), J(b"." + key)]), dict(ctl0, badmailfrom=[J(b"Jack.Q.Public-vwxyz@" + key), J(b"@sub." + key)])):
            out.append({"d": "smtpd", "env": {"RELAYCLIENT": None}, "ctl": ctl, "db": None, "qq": {"mode": "qq", "exit": 0}, "grid": "alphabet_case",
                        "cmds": [mail(b"jACK.q.pUBLIC-VWXYZ@" + addr), rcpt(b"u@" + addr), rcpt(ok1), D(), mail(b"x@sub." + addr), rcpt(b"u@sub." + addr), rcpt(ok1), D(),
                                 mail(), rcpt(b"u@" + addr), rcpt(b"u@x." + addr), D()], "cut": None})
    # control files whose last line has no newline (the last entries of ctl0 decide "iplit", "bmf" and "case_and_more")
    for name in ("iplit", "bmf", "case_and_more", "mixed_rcpts"):
        for nonl in (["rcpthosts"], ["badmailfrom"], ["morercpthosts"], ["me", "rcpthosts", "badmailfrom", "morercpthosts"]):
            out.append({"d": "smtpd", "env": {"RELAYCLIENT": None}, "ctl": dict(ctl0, nonl=nonl), "db": None, "qq": {"mode": "qq", "exit": 0},
                        "cmds": seqs[name], "cut": None, "grid": name + "_no_final_newline"})
    for name, cmds in seqs.items():
        for relay in (None, b"", b"@relay.example"):
            for rh in ("list", "absent", "empty"):
                ctl = dict(ctl0)
                if rh == "absent":
                    ctl["rcpthosts"] = None
                elif rh == "empty":
                    ctl["rcpthosts"] = []
                for qq in ({"mode": "qq", "exit": 0}, {"mode": "qq", "exit": [31, 0, 71]}):
                    if qq["exit"] != 0 and name not in ("failed_data_ends_txn", "data_twice", "data_then_rcpt"):
                        continue
                    out.append({"d": "smtpd", "env": {"RELAYCLIENT": None if relay is None else J(relay)}, "ctl": ctl, "db": None, "qq": qq,
                                "cmds": cmds, "cut": None, "grid": name})
    # every early system call of the daemon failing once, against the sessions that exercise the relay rules
    for name in ("iplit", "mixed_rcpts", "case_and_more", "bmf"):
        for cls, n in (("socket", 2), ("open", 12), ("read", 12)):
            for k in range(n):
                for er in (23, 13):
                    for persist in ((False, True) if cls != "read" else (False,)):
                        out.append({"d": "smtpd", "env": {"RELAYCLIENT": None}, "ctl": dict(ctl0), "db": None, "qq": {"mode": "qq", "exit": 0},
                                    "cmds": seqs[name], "cut": None, "grid": name + "_sysfault",
                                    "sysfault": {"cls": cls, "k": k, "errno": er, "persist": persist}})
    # the daemon running out of memory (a memory limit set by its supervisor): every allocation of the session failing once. It may give up or
    # refuse temporarily at any point; whatever it then still accepts is a message with exactly the recipients it answered 250
    # (added after seeded change C08-L)
    for k in range(0, 70):
        out.append({"d": "smtpd", "env": {"RELAYCLIENT": None}, "ctl": dict(ctl0), "db": None, "qq": {"mode": "qq", "exit": 0},
                    "cmds": seqs["many_rcpts"], "cut": None, "grid": "many_rcpts_sysfault", "sysfault": {"cls": "malloc", "k": k, "errno": 12, "persist": False}})
    return out


# =============================================================================================== oracle self-test

def self_test():
    """Hand-written observations: the good one must pass, each bad one must be refused by the oracle (else the check is vacuous)."""
    sc = [x for x in grid(b"10.9.8.7") if x["grid"] == "mail_rcpt_mail_rcpt_data" and x["env"]["RELAYCLIENT"] is None and x["ctl"]["rcpthosts"]][0]
    cfg = M.model_cfg(sc, {}, 0, {"127.0.0.1"})
    body = M.fake_received(b"SMTP") + b"Subject: t\n\nbody\n"
    good = b"220 x ESMTP\r\n250 ok\r\n250 ok\r\n250 ok\r\n250 ok\r\n354 go\r\n250 ok\r\n"
    cm = lambda **kw: dict({"msg": body, "sender": b"t@x.org", "rcpts": [b"u2@sub.b.example"], "real": False}, **kw)
    cases = [("good", good, [cm()], False),
             ("recipient of the abandoned transaction queued", good, [cm(rcpts=[b"u1@a.example", b"u2@sub.b.example"])], True),
             ("sender of the abandoned transaction queued", good, [cm(sender=b"s@x.org")], True),
             ("queued without 250", good.replace(b"354 go\r\n250 ok", b"354 go\r\n451 no"), [cm()], True),
             ("nothing queued after 250", good, [], True),
             ("two-line reply for RCPT", good.replace(b"250 ok\r\n250 ok\r\n354", b"250 ok\r\n250 ok\r\n250 extra\r\n354"), [cm()], True),
             ("malformed reply line", good.replace(b"354 go", b"35 go"), [cm()], True)]
    sc2 = [x for x in grid(b"10.9.8.7") if x["grid"] == "mixed_rcpts" and x["env"]["RELAYCLIENT"] is None and x["ctl"]["rcpthosts"]][0]
    out2 = b"220 x\r\n250 ok\r\n250 ok\r\n250 relayed!\r\n"
    for name, out, commits, bad in cases:
        v = M.smtp_check(sc, cfg, M.fake_obs(out, commits), {})
        if bool(v) != bad:
            raise vlib.HarnessError("oracle self-test '%s': expected %s, got %r" % (name, "a violation" if bad else "acceptance", v))
    v = M.smtp_check(dict(sc2, cut=len(M.smtp_stream(sc2["cmds"][:3]))), M.model_cfg(sc2, {}, 0, {"127.0.0.1"}), M.fake_obs(out2, []), {})
    if not v or "RCPT answered 250" not in v:
        raise vlib.HarnessError("oracle self-test: open relay (RCPT for a foreign domain answered 250) accepted: %r" % v)
    sc3 = [x for x in grid(b"10.9.8.7") if x["grid"] == "mail_helo_rcpt" and x["env"]["RELAYCLIENT"] is None and x["ctl"]["rcpthosts"]][0]
    v = M.smtp_check(dict(sc3, cut=len(M.smtp_stream(sc3["cmds"][:3]))), M.model_cfg(sc3, {}, 0, {"127.0.0.1"}), M.fake_obs(b"220 x\r\n250 ok\r\n250 x\r\n250 ok\r\n", []), {})
    if not v:
        raise vlib.HarnessError("oracle self-test: RCPT accepted after HELO discarded the transaction, and the oracle accepted it")
    return len(cases) + 2


# =============================================================================================== driver

def pick_foreign(local_ips):
    for cand in ("10.9.8.7", "198.51.100.7", "203.0.113.9"):
        if cand not in local_ips:
            return cand.encode()
    raise vlib.HarnessError("no foreign test address available")


def run_case(r, sc, stats, local_ips):
    for tag in sc.get("excl", []):
        stats.cls(tag)
    v, info, obs = M.run_smtp_scenario(r, sc, local_ips)
    if v == "INCONCLUSIVE":
        stats.inconclusive += 1
        return None
    classes = []
    ctl = sc["ctl"]
    classes.append("rcpthosts_" + ("absent" if ctl.get("rcpthosts") is None else ("empty" if not M.effective_entries([B(x) for x in ctl["rcpthosts"]]) else "entries")))
    if ctl.get("morercpthosts"):
        classes.append("morercpthosts")
    if ctl.get("badmailfrom"):
        classes.append("badmailfrom")
    if sc["env"].get("RELAYCLIENT") is not None:
        classes.append("relayclient")
    if info.get("rcpt_ok"):
        classes.append("rcpt_accepted")
    if info.get("rcpt_no"):
        classes.append("rcpt_refused")
    if info.get("acks"):
        classes.append("data_250")
    if info.get("data_refused"):
        classes.append("data_503")
    if info.get("resets_in_txn"):
        classes.append("reset_in_txn")
    if info.get("degraded"):
        classes.append("degraded")
    if any(c["t"] in ("mail", "rcpt") and c.get("addr") is None for c in sc["cmds"]):
        classes.append("arg_outside_grammar")
    if any(b"[127.0.0.1]>" in B(c["line"]) for c in sc["cmds"]):
        classes.append("ip_literal_local")
    if sc.get("sysfault"):
        classes.append("sysfault_" + sc["sysfault"]["cls"])
        if info.get("gave_up"):
            classes.append("sysfault_daemon_gave_up")
        elif info.get("neg4"):
            classes.append("sysfault_temporary_refusal")
    if info.get("slack"):
        stats.slack += 1
    nontrivial = bool((info.get("rcpt_ok") and info.get("rcpt_no")) or info.get("resets_in_txn"))
    stats.case(scenario=sc, nontrivial=nontrivial, classes=classes, key=vlib.digest(sc))
    if v:
        if "ip_literal_octet_over_255" in LISTED and SUPPRESS[0] and has_big_octet(sc):
            stats.known_hits["ip_literal_octet_over_255"] = stats.known_hits.get("ip_literal_octet_over_255", 0) + 1
            return None
        return "%s | %s" % (v, json.dumps(sc)[:3000])
    return None


SUPPRESS = [True]


def has_big_octet(sc):
    """Predicate of the known-finding signature: an address argument carries an IP literal with an octet above 255."""
    for c in sc["cmds"]:
        a = B(c.get("addr")) if c.get("addr") is not None else None
        if a:
            m = M.IPLIT_RE.match(a)
            if m and any(int(m.group(i)) > 255 for i in range(2, 6)):
                return True
    return False


def regress_scenarios():
    out = []
    d = os.path.join(vlib.VERIF, "corpus", "C08", "regress")
    if os.path.isdir(d):
        for f in sorted(os.listdir(d)):
            if f.endswith(".json"):
                s = json.load(open(os.path.join(d, f)))
                out.append(s.get("scenario", s))
    return out


def worker(job):
    tree, wid, seed, plan, fixed, listed = job
    LISTED.clear()
    LISTED.update(listed)
    stats = vlib.Stats()
    r = M.Runner(tree, "c08-%d" % wid)
    local_ips = M.local_ipv4()
    if "127.0.0.1" not in local_ips:
        raise vlib.HarnessError("127.0.0.1 is not configured on this host")
    foreign = pick_foreign(local_ips)
    for n, sc in enumerate(fixed):
        if n % 40 == 0 and M.flag_up(plan):
            return stats
        v = run_case(r, sc, stats, local_ips)
        if v:
            stats.violations.append((v, sc))
            M.raise_flag(plan)
            return stats
    stats.cls("grid_cases", len(fixed))

    def runfn(sc, stats):
        return run_case(r, sc, stats, local_ips)
    M.search_rounds(scenario_st(foreign), runfn, seed, stats, plan)
    return stats


def run(ctx):
    sandbox.ensure_shim()
    tree = vlib.Tree().make(*M.TARGETS)
    listed = [s for s in KNOWN_SIGS if any(k.get("sig") == s for k in ctx.known)]
    ctx.notes["oracle_selftest_cases"] = self_test()
    fixed = regress_scenarios() + grid(pick_foreign(M.local_ipv4()))
    if getattr(ctx, "only", None) and "hyp" in ctx.only:      # debugging / sensitivity of the random generator alone
        fixed = []
    nw = vlib.NCPU
    plan = M.round_plan(ctx)
    jobs = [(tree, i, vlib.subseed(ctx.seed, "c08", i), plan, fixed[i::nw], listed) for i in range(nw)]
    ctx.stats.merge(vlib.run_workers(worker, jobs))
    for sig, n in list(ctx.stats.known_hits.items()):
        ctx.stats.known_hits[sig] = n - 1
        ctx.known_finding(sig)
    ctx.notes["grid_total"] = len(fixed)
    need = ["rcpt_accepted", "rcpt_refused", "data_250", "data_503", "reset_in_txn", "morercpthosts", "badmailfrom", "relayclient",
            "rcpthosts_absent", "rcpthosts_empty", "rcpthosts_entries", "ip_literal_local", "arg_outside_grammar"]
    starved = [c for c in need if not ctx.stats.classes.get(c)]
    if starved and not ctx.stats.violations and not getattr(ctx, "only", None):
        raise vlib.HarnessError("GENERATOR-STARVED: classes never reached: %s" % starved)


def replay(ctx, path):
    sandbox.ensure_shim()
    tree = vlib.Tree().make(*M.TARGETS)
    sc = json.load(open(path))
    sc = sc.get("scenario", sc)
    LISTED.clear()
    LISTED.update(KNOWN_SIGS)
    SUPPRESS[0] = False
    r = M.Runner(tree, "c08-replay")
    v = run_case(r, sc, ctx.stats, M.local_ipv4())
    return [v] if v else []
