"""C10 - Recipients are routed and rewritten exactly by the control files.
Whole program: generated control files, a message injected with the real qmail-queue, preprocessed by the real qmail-send in the
driven world; observed: records of local/<n> and remote/<n> (order, spelling, channel) and the sender field of every delivery
command (VERP). Oracle: independent Python model of qmail-send.9 / addresses.5 (route() below). Second phase: control files
rewritten, HUP at a quiescent point, second message."""
import os, json, signal
from hypothesis import strategies as st
from lib import vlib, sandbox, qworld

LEVEL = "exploration"
RULE = ("Hypothesis draws configurations from a pool of 5 domain labels and 4 users (me, locals, virtualdomains with user@dom / dom / .suffix / "
        "catch-all / empty-prepend exception entries and never two entries with the same key, percenthack, envnoathost; comments, blank lines, "
        "trailing blanks, mixed case) and 1-12 recipients built from the configured names plus near misses (case, extra/missing label, no @, "
        "trailing @, several @, one or more %, leading-dot domains, 8-bit). Non-trivial = at least two rules apply to one recipient (listed in "
        "locals AND virtualdomains, user entry AND wildcard, ...) or a percent-hack step fires; distinct = scenario digest.")
ASSUMPTIONS = ["control files with duplicate keys are outside the domain (property text)",
               "user%fqdn@domain where 'fqdn' itself contains an '@' and the rewritten address would qualify for another percent-hack step by its "
               "last-'@' domain: whether the hack repeats is unspecified; only conservation (appears exactly once, nothing else appears) is "
               "checked there, counted as slack. Every other address with several '@' is judged in full (domain = text after the last '@')"]

# the last label carries every letter of the alphabet: "all matching ignores case" must hold for each of the 26 (added after seeded change C10-E)
LABELS = ["a.example", "b.example", "sub.a.example", "c.test", "deep.sub.a.example", "quick-brown-fox.jumps-over.lazy-dog.vwxyz.test"]
USERS = ["joe", "ann", "list", "x"]


def lower(b):
    return b.lower()


def parse_lines(text):
    out = []
    for line in text.encode("latin-1").split(b"\n"):
        line = line.rstrip(b" \t")
        if not line or line.startswith(b"#"):
            continue
        out.append(line)
    return out


def route(addr, cfg):
    """-> (channel, rewritten, nrules, hacked, slack)   channel 0 = local, 1 = remote"""
    nrules = 0
    hacked = False
    slack = False
    if b"@" not in addr:
        addr = addr + b"@" + cfg["envnoathost"]
    while True:
        at = addr.rfind(b"@")
        dom = lower(addr[at + 1:])
        local = addr[:at]
        if dom in cfg["percenthack"] and b"%" in local:
            j = local.rfind(b"%")
            addr = local[:j] + b"@" + local[j + 1:]
            hacked = True
            if b"@" in local[j + 1:]:
                # user%fqdn@domain with an '@' inside "fqdn": the rewritten address is user@fqdn all the same and its domain is what follows
                # its last '@'. Open is only whether the hack applies AGAIN (the documents speak of the rewritten address's domain, the code
                # looks at everything behind the new '@'): where that matters the case is slack, otherwise it is judged like any other
                # (narrowed after seeded change C10-K: the whole family had been slack)
                at2 = addr.rfind(b"@")
                if lower(addr[at2 + 1:]) in cfg["percenthack"] and b"%" in addr[:at2]:
                    slack = True
                break
        else:
            break
    at = addr.rfind(b"@")
    dom = lower(addr[at + 1:])
    keys = [lower(addr), dom] + [dom[i:] for i in range(1, len(dom)) if dom[i:i + 1] == b"."] + [b""]
    if dom.startswith(b".") and len(dom) > 0:
        pass
    hits = [k for k in dict.fromkeys(keys) if k in cfg["vdoms"]]
    is_local = dom in cfg["locals"]
    nrules = len(hits) + (1 if is_local else 0)
    if is_local:
        return 0, addr, nrules, hacked, slack
    if hits:
        pre = cfg["vdoms"][hits[0]]
        if pre == b"":
            return 1, addr, nrules, hacked, slack
        return 0, pre + b"-" + addr, nrules, hacked, slack
    return 1, addr, nrules, hacked, slack


def verp(sender, rewritten):
    """owner-@host-@[] + box@rhost -> owner-box=rhost@host (qmail-send.9 / addresses.5)"""
    if len(sender) >= 4 and sender.endswith(b"-@[]"):
        core = sender[:-4]
        j = core.rfind(b"@")
        k = rewritten.rfind(b"@")
        if j >= 0 and k >= 0 and len(core) > j:
            return core[:j] + rewritten[:k] + b"=" + rewritten[k + 1:] + b"@" + core[j + 1:]
    return sender


def cfg_of(controls):
    me = controls.get("me", "me.example\n").encode("latin-1").split(b"\n")[0].strip()
    vd = {}
    for l in parse_lines(controls.get("virtualdomains", "")):
        k, _, v = l.partition(b":")
        vd[lower(k)] = v
    return {"envnoathost": (parse_lines(controls["envnoathost"])[0] if controls.get("envnoathost") and parse_lines(controls["envnoathost"]) else me),
            "locals": {lower(x) for x in parse_lines(controls["locals"])} if "locals" in controls else {lower(me)},
            "percenthack": {lower(x) for x in parse_lines(controls.get("percenthack", ""))},
            "vdoms": vd}


# ------------------------------------------------------------------ generators
def casemix(draw, s):
    m = draw(st.integers(0, 3))
    if m == 0:
        return s
    if m == 1:
        return s.upper()
    if m == 2:
        return s.capitalize()
    return "".join(c.upper() if i % 2 else c for i, c in enumerate(s))


def decorate(draw, lines):
    out = []
    for l in lines:
        d = draw(st.integers(0, 7))
        if d == 0:
            out.append("# comment")
        if d == 1:
            out.append("")
        out.append(l + ("  " if d == 2 else "\t" if d == 3 else ""))
    return "\n".join(out) + ("\n" if draw(st.integers(0, 4)) else "")


@st.composite
def controls_strategy(draw):
    c = {"me": draw(st.sampled_from(["me.example", "a.example"])) + "\n"}
    nl = draw(st.integers(0, 4))
    locs = draw(st.lists(st.sampled_from(LABELS), min_size=nl, max_size=nl, unique=True))
    if draw(st.integers(0, 5)):
        c["locals"] = decorate(draw, [casemix(draw, x) for x in locs])
    vd = {}
    for _ in range(draw(st.integers(0, 6))):
        kind = draw(st.integers(0, 4))
        lab = draw(st.sampled_from(LABELS))
        if kind == 0:
            key = "%s@%s" % (draw(st.sampled_from(USERS)), lab)
        elif kind == 1:
            key = lab
        elif kind == 2:
            key = "." + lab
        elif kind == 3:
            key = ""
        else:
            key = lab
        pre = "" if kind == 4 or draw(st.integers(0, 5)) == 0 else draw(st.sampled_from(["vu", "alias-x", "P", "v.u"]))
        key = casemix(draw, key)
        if key.lower() not in {k.lower() for k in vd}:
            vd[key] = pre
    if vd or draw(st.booleans()):
        c["virtualdomains"] = decorate(draw, ["%s:%s" % kv for kv in vd.items()])
    ph = draw(st.lists(st.sampled_from(LABELS), max_size=2, unique=True))
    if ph:
        c["percenthack"] = decorate(draw, [casemix(draw, x) for x in ph])
    if draw(st.integers(0, 2)) == 0:
        c["envnoathost"] = draw(st.sampled_from(LABELS + ["nowhere.test"])) + "\n"
    return c


@st.composite
def recipient(draw):
    u = draw(st.sampled_from(USERS))
    d = draw(st.sampled_from(LABELS + ["other.test", "x.b.example", "example", "A.EXAMPLE", ".a.example", "a.example."]))
    k = draw(st.integers(0, 13))
    if k <= 5:
        return "%s@%s" % (casemix(draw, u), casemix(draw, d))
    if k == 6:
        return u
    if k == 7:
        return u + "@"
    if k == 8:
        return "%s@%s@%s" % (u, draw(st.sampled_from(LABELS)), d)
    if k == 9:
        return "%s%%%s@%s" % (u, draw(st.sampled_from(LABELS + ["other.test"])), d)
    if k == 10:
        return "%s%%%s%%%s@%s" % (u, draw(st.sampled_from(LABELS)), draw(st.sampled_from(LABELS)), d)
    if k == 11:
        return "%s\xe9\xff@%s" % (u, d)
    if k == 12:
        return "%s%%%s@%s@%s" % (u, draw(st.sampled_from(LABELS)), draw(st.sampled_from(LABELS)), d)
    return "%s+ext@%s" % (u, d)


WIDE_POOL = ["joe@a.example", "ann@b.example", "list@sub.a.example", "x@c.test", "joe@other.test", "subscriber-with-a-long-name@deep.sub.a.example",
             "ann@x.b.example", "list+ext@a.example", "x@example", "joe", "ann%b.example@a.example", "J@A.EXAMPLE"]


@st.composite
def scenario(draw):
    sc = {"controls": draw(controls_strategy()),
          "sender": draw(st.sampled_from(["s@other.test", "", "list-owner-@host.test-@[]", "o-@h-@[]", "-@[]", "x-@[]", "#@[]"])),
          "rcpts": draw(st.lists(recipient(), min_size=1, max_size=12))}
    if draw(st.integers(0, 7)) == 0:
        # a mailing-list sized envelope: the per-channel record buffers of the preprocessing step (1 kB each) are flushed several times
        # while the other channel still holds pending records (added after seeded change C10-D)
        sc["rcpts"] = draw(st.lists(st.sampled_from(WIDE_POOL), min_size=30, max_size=110))
    if draw(st.integers(0, 2)) == 0:
        c2 = draw(controls_strategy())
        sc["hup"] = {k: c2[k] for k in ("locals", "virtualdomains", "percenthack", "envnoathost") if k in c2}
        sc["rcpts2"] = draw(st.lists(recipient(), min_size=1, max_size=6))
        if draw(st.integers(0, 1)) == 0:
            # the administrator edits the files once more and sends a second HUP while the daemon is in the middle of re-reading them
            # (it has read locals and is about to open virtualdomains): the last HUP still follows the last edit, so the last edit applies
            c3 = draw(controls_strategy())
            sc["hup2"] = {k: c3[k] for k in ("locals", "virtualdomains") if k in c3}
        elif draw(st.integers(0, 1)) == 0:
            # a successful HUP, another edit of locals, then a HUP whose re-read of control/virtualdomains FAILS (the file is a directory for
            # that moment): the daemon keeps working with tables that correspond to control files it has read - the ones in force before the
            # failed attempt - never with something in between or with garbage (added after seeded change C10-I)
            c3 = draw(controls_strategy())
            sc["hupfail"] = {"locals": c3.get("locals", "zz.example\n")}
    return sc


# ------------------------------------------------------------------ execution
def observe(w, n, rcpts, sender, cfg, stats, what):
    """compare records and command senders for message n with the model"""
    recs = w.chan_records(n)
    exp = {0: [], 1: []}
    nontrivial = False
    slack = False
    for r in rcpts:
        ch, rew, nrules, hacked, sl = route(r, cfg)
        exp[ch].append(rew)
        nontrivial = nontrivial or nrules >= 2 or hacked
        slack = slack or sl
    got = {c: [a for mk, a in (recs[c] or [])] for c in (0, 1)}
    if slack:
        stats.slack += 1
        if sorted(len(x) for x in got.values()) != sorted(len(x) for x in exp.values()) and sum(len(x) for x in got.values()) != len(rcpts):
            return "%s: %d recipients in, %d records out" % (what, len(rcpts), sum(len(x) for x in got.values())), nontrivial
        return None, nontrivial
    for c in (0, 1):
        if got[c] != exp[c]:
            return ("%s: %s channel records differ from the documented routing: got %r, model %r (recipients %r)" % (
                what, ("local", "remote")[c], got[c], exp[c], rcpts)), nontrivial
    # VERP expansion on the commands
    for cmd in w.cmds:
        if cmd.n != n:
            continue
        want = verp(sender, cmd.recip)
        if cmd.sender != want:
            return "%s: command for %r carries sender %r, documented %r" % (what, cmd.recip, cmd.sender, want), nontrivial
    return None, nontrivial


def run_one(w, sc, stats):
    L = lambda s: s.encode("latin-1")
    w.kill_all()
    w.reset_queue()
    for f in os.listdir(os.path.join(w.h.dir, "control")):
        os.unlink(os.path.join(w.h.dir, "control", f))
    for k, v in sc["controls"].items():
        w.h.control(k, v)
    w.limits = (120, 120)
    w.extra_env = {}
    if "hup2" in sc:
        w.extra_env = {"VSHIM_PAUSE": "send.qmail-send|control/virtualdomains|1"}     # occurrence 0 is the start-up read
    if "hupfail" in sc:
        w.extra_env = {"VSHIM_PAUSE": "send.qmail-send|control/virtualdomains|2"}     # the re-read after the SECOND HUP
    try:
        if "crash" in sc:
            return crash_between_configurations(w, sc, stats)
        w.start()
        ev = w.wait_event()
        if ev[0] != "Q":
            return "daemon did not start: %r log %r" % (ev, w.log[-200:]), False
        rc, n = w.inject(L(sc["sender"]), [L(r) for r in sc["rcpts"]], b"Subject: x\n\nb\n")
        if rc != 0 or n is None:
            return None, False
        w.resume()
        ev = w.wait_event()
        if ev[0] != "Q":
            return "daemon stopped after injection: %r" % (ev,), False
        cfg = cfg_of(sc["controls"])
        v, nt = observe(w, n, [L(r) for r in sc["rcpts"]], L(sc["sender"]), cfg, stats, "first message")
        if v:
            return v, nt
        if "hup" in sc:
            for k in ("locals", "virtualdomains", "percenthack", "envnoathost"):
                w.h.control(k, sc["hup"].get(k))
            w.signal(signal.SIGHUP)
            ev = w.wait_event()          # ("I",)
            ev = w.wait_event()
            final = dict(sc["hup"])
            if "hup2" in sc:
                if ev[0] != "P":
                    return "the daemon did not re-read control/virtualdomains after HUP (event %r)" % (ev[:1],), nt
                for k in ("locals", "virtualdomains"):
                    w.h.control(k, sc["hup2"].get(k))
                final = dict(sc["hup2"])
                w.signal(signal.SIGHUP)
                w.resume()
                stats.cls("hup_during_reread")
                ev = w.wait_event()
                if ev[0] == "I":
                    ev = w.wait_event()
            if ev[0] != "Q":
                return "daemon stopped after HUP: %r" % (ev,), nt
            alt_final = None
            if "hupfail" in sc:
                w.h.control("locals", sc["hupfail"]["locals"])
                w.signal(signal.SIGHUP)
                ev = w.wait_event()
                if ev[0] == "I":
                    ev = w.wait_event()
                if ev[0] != "P":
                    return "the daemon did not re-read control/virtualdomains after the second HUP (event %r)" % (ev[:1],), nt
                vp = os.path.join(w.h.dir, "control", "virtualdomains")
                keep = open(vp, "rb").read() if os.path.isfile(vp) else None
                if keep is not None:
                    os.unlink(vp)
                os.mkdir(vp)                       # open() succeeds, read() fails with EISDIR: "unable to reread control/virtualdomains"
                w.resume()
                ev = w.wait_event()
                os.rmdir(vp)
                if keep is not None:
                    open(vp, "wb").write(keep)
                if ev[0] != "Q":
                    return "daemon stopped after a HUP whose re-read failed: %r" % (ev,), nt
                stats.cls("hup_with_failing_reread")
                alt_final = dict(final, locals=sc["hupfail"]["locals"])
            rc, n2 = w.inject(L(sc["sender"]), [L(r) for r in sc["rcpts2"]], b"Subject: y\n\nb\n")
            w.resume()
            ev = w.wait_event()
            if ev[0] != "Q" or n2 is None:
                return None, nt
            # after HUP locals and virtualdomains are re-read; percenthack and envnoathost are not (qmail-send.9)
            c2 = dict(sc["controls"])
            for k in ("locals", "virtualdomains"):
                if k in final:
                    c2[k] = final[k]
                else:
                    c2.pop(k, None)
            cfg2 = cfg_of(c2)
            v, nt2 = observe(w, n2, [L(r) for r in sc["rcpts2"]], L(sc["sender"]), cfg2, stats, "message after HUP")
            if v and alt_final is not None:
                # the failed re-read had already taken in the new locals file: that reading is accepted as well
                c3_ = dict(c2)
                c3_["locals"] = alt_final["locals"]
                v_alt, _ = observe(w, n2, [L(r) for r in sc["rcpts2"]], L(sc["sender"]), cfg_of(c3_), stats, "message after HUP")
                if v_alt is None:
                    v = None
                    stats.slack += 1
            # the first message keeps its classification
            v1, _ = observe(w, n, [L(r) for r in sc["rcpts"]], L(sc["sender"]), cfg, stats, "first message after HUP")
            stats.cls("with_hup")
            return v or v1, nt or nt2
        return None, nt
    except qworld.Inconclusive:
        stats.inconclusive += 1
        return None, False
    finally:
        w.kill_all()


def crash_between_configurations(w, sc, stats):
    """the machine stops before the daemon's k-th mutating call in the middle of the pre-processing pass; the administrator changes the control
    files before it comes back. A pass that had not been completed (todo/<n> still there) is repeated from scratch under the files then in
    force: what it leaves in local/<n> and remote/<n> is the documented routing of exactly this envelope - nothing of the interrupted pass
    survives next to it (added after seeded change C10-M)."""
    L = lambda s_: s_.encode("latin-1")
    k = sc["crash"]["k"]
    w.start(crash="send.qmail-send:%d" % k)
    ev = w.wait_event()
    if ev[0] != "Q" or os.path.exists(w.crashflag):
        stats.cls("crash_before_injection")
        return None, False
    rc, n = w.inject(L(sc["sender"]), [L(r) for r in sc["rcpts"]], b"Subject: x\n\nb\n")
    if rc != 0 or n is None:
        return None, False
    w.resume()
    try:
        ev = w.wait_event()
    except qworld.Inconclusive:
        if not os.path.exists(w.crashflag):
            raise
    crashed = os.path.exists(w.crashflag)
    w.kill_all()
    if not crashed:
        stats.cls("crash_point_beyond_the_pass")
        return None, False
    repeated = os.path.exists(w.h.qpath("todo", n))
    for name, val in sc["crash"]["controls"].items():
        w.h.control(name, val)
    w.start()
    ev = w.wait_event()
    if ev[0] != "Q":
        return "daemon did not come back after the crash: %r" % (ev,), True
    ctl = dict(sc["controls"], **sc["crash"]["controls"]) if repeated else sc["controls"]
    stats.cls("crash_in_pass_then_other_controls" if repeated else "crash_after_pass_then_other_controls")
    v, nt = observe(w, n, [L(r) for r in sc["rcpts"]], L(sc["sender"]), cfg_of(ctl), stats,
                    "message whose pre-processing was interrupted by a crash (pass %s, control files changed before the restart)" % ("repeated" if repeated else "had been completed"))
    return v, True


def crash_fixed():
    out = []
    c1 = {"me": "me.test\n", "locals": "a.example\n", "virtualdomains": "c.test:vuser\n"}
    for c2, rc in (({"locals": "a.example\nmoved.example\n"}, ["joe@a.example", "bob@moved.example"]),          # remote channel empties
                   ({"locals": "\n", "virtualdomains": "\n"}, ["joe@a.example", "x@c.test", "r@far.test"]),       # local channel empties
                   ({"virtualdomains": "c.test:other\n"}, ["x@c.test", "r@far.test"])):                        # same channels, other tag
        for k in range(0, 26):
            out.append({"controls": c1, "sender": "s@other.test", "rcpts": rc, "crash": {"k": k, "controls": c2}})
    return out


def worker(job):
    tree, wid, seed, nex, fixed = job
    stats = vlib.Stats()
    w = qworld.World(tree, os.path.join(vlib.scratch_root(), "c10-%s" % wid))

    def runfn(sc, stats):
        v, nt = run_one(w, sc, stats)
        stats.case(scenario=sc, nontrivial=nt, classes=["multi_rule_or_hack"] if nt else [])
        return v
    try:
        for sc in fixed:
            v = runfn(sc, stats)
            if v:
                stats.violations.append((v, sc))
                return stats
        vlib.hyp_search(scenario(), runfn, nex, seed, stats)
    finally:
        w.close()
    return stats


def alphabet_fixed():
    """every letter in a control-file key meets its other case in the address, in locals, virtualdomains (domain, user@domain and
    .suffix keys) and percenthack"""
    pan = "quick-brown-fox.jumps-over.lazy-dog.vwxyz.test"
    out = []
    for key, addr in ((pan, pan.upper()), (pan.upper(), pan), (pan.title(), pan.swapcase())):
        out.append({"controls": {"me": "me.test\n", "locals": key + "\n"}, "sender": "s@other.test", "rcpts": ["joe@" + addr, "joe@x." + addr]})
        out.append({"controls": {"me": "me.test\n", "locals": "\n", "virtualdomains": "%s:vdom\n" % key}, "sender": "s@other.test", "rcpts": ["joe@" + addr, "ann@x." + addr]})
        out.append({"controls": {"me": "me.test\n", "locals": "\n", "virtualdomains": ".%s:vsuf\n" % key}, "sender": "s@other.test", "rcpts": ["joe@sub." + addr, "joe@" + addr]})
        out.append({"controls": {"me": "me.test\n", "locals": "\n", "virtualdomains": "Jack.Q.Public-%s@%s:vuser\n" % ("vwxyz", key)}, "sender": "s@other.test",
                    "rcpts": ["jACK.q.pUBLIC-VWXYZ@" + addr, "jack.q.public-vwxyz@" + key]})
        out.append({"controls": {"me": "me.test\n", "locals": "a.example\n", "percenthack": key + "\n"}, "sender": "s@other.test", "rcpts": ["joe%a.example@" + addr]})
    return out


def wide_fixed():
    """envelopes whose local and remote record volumes straddle 1024 and 2048 bytes in every combination (60 local x 3 remote, ...)"""
    ctl = {"me": "me.test\n", "locals": "a.example\nb.example\n", "virtualdomains": "c.test:vuser\n"}
    out = []
    for nloc, nrem, every in ((60, 3, 20), (3, 60, 1), (45, 45, 1), (33, 1, 33), (1, 33, 1), (90, 90, 2), (70, 2, 35)):
        rc = []
        li = ri = 0
        while li < nloc or ri < nrem:
            if li < nloc:
                rc.append("subscriber-%03d@%s" % (li, ("a.example", "b.example", "c.test")[li % 3]))
                li += 1
            if ri < nrem and (li % every == 0 or li >= nloc):
                rc.append("remote-after-%03d@far%d.test" % (ri, ri % 4))
                ri += 1
        out.append({"controls": ctl, "sender": "list-owner-@host.test-@[]", "rcpts": rc})
    return out


def run(ctx):
    sandbox.ensure_shim()
    tree = vlib.Tree().make("qmail-queue", "qmail-send", "qmail-clean")
    nw = vlib.NCPU
    fixed = wide_fixed() + alphabet_fixed() + crash_fixed()
    d = os.path.join(vlib.VERIF, "corpus", "C10", "regress")
    if os.path.isdir(d):
        for f in sorted(os.listdir(d)):
            fixed.append(json.load(open(os.path.join(d, f))).get("scenario"))
    jobs = [(tree, i, vlib.subseed(ctx.seed, "c10", i), ctx.n(160, 3000), fixed[i::nw]) for i in range(nw)]
    ctx.stats.merge(vlib.run_workers(worker, jobs))
    if not ctx.stats.violations:
        volume(ctx, tree)


def replay(ctx, path):
    sandbox.ensure_shim()
    tree = vlib.Tree().make("qmail-queue", "qmail-send", "qmail-clean")
    sc = json.load(open(path))
    sc = sc.get("scenario", sc)
    w = qworld.World(tree, os.path.join(vlib.scratch_root(), "c10-replay"))
    try:
        v, nt = run_one(w, sc, ctx.stats)
    finally:
        w.close()
    return [v] if v else []


# ------------------------------------------------------------------ volume: rewrite()/senderadd() in-process
SEND_LIBS = ("qsutil.o control.o constmap.o newfield.o prioq.o trigger.o fmtqfn.o quote.o readsubdir.o qmail.o date822fmt.o "
             "datetime.a case.a ndelay.a getln.a wait.a fd.a sig.a open.a lock.a stralloc.a substdio.a error.a str.a fs.a auto_qmail.o auto_split.o env.a")


def build_volume(tree):
    from lib import inproc
    tree.make("qmail-send")
    out = tree.path("c10-rewrite")
    inproc.link(tree, out, [os.path.join(vlib.VERIF, "inproc/c10_rewrite.c")], inproc.dedup_libs(SEND_LIBS))
    return out


def vol_worker(job):
    """many configurations x many recipients through the real getcontrols()/rewrite()/senderadd(), compared with route()/verp()"""
    import subprocess
    binp, wid, seed, ncfg, nrcp = job
    stats = vlib.Stats()
    base = os.path.join(vlib.scratch_root(), "c10v-%d" % wid)
    os.makedirs(os.path.join(base, "control"), exist_ok=True)
    p = subprocess.Popen([binp], stdin=subprocess.PIPE, stdout=subprocess.PIPE, stderr=subprocess.DEVNULL,
                         env=dict(os.environ, ASAN_OPTIONS="detect_leaks=0"), cwd="/")
    senders = [b"s@other.test", b"", b"list-owner-@host.test-@[]", b"o-@h-@[]", b"-@[]", b"x-@[]", b"#@[]", b"a@b-@[]", b"@-@[]"]

    def ask(line):
        p.stdin.write(line + b"\n")
        p.stdin.flush()
        return p.stdout.readline().rstrip(b"\n")

    def runfn(sc, stats):
        for f in os.listdir(os.path.join(base, "control")):
            os.unlink(os.path.join(base, "control", f))
        for k, v in sc["controls"].items():
            open(os.path.join(base, "control", k), "wb").write(v.encode("latin-1"))
        if ask(b"C " + base.encode()) != b"OK":
            return "getcontrols() failed for %r" % sc["controls"]
        cfg = cfg_of(sc["controls"])
        for r in sc["rcpts"]:
            rb = r.encode("latin-1")
            if b"\0" in rb or b"\n" in rb:
                continue
            ans = ask(b"R " + rb.hex().encode())
            ch, rew, nrules, hacked, slack = route(rb, cfg)
            stats.case(nontrivial=nrules >= 2 or hacked, key=(sc["controls"], r), classes=["volume"])
            if slack:
                stats.slack += 1
                continue
            want = b"%d %s" % (ch, rew.hex().encode())
            if ans != want:
                got = ans.split(b" ")
                return "rewrite(%r) = channel %s %r, documented routing: channel %d %r (controls %r)" % (
                    rb, got[0], bytes.fromhex(got[1].decode()) if len(got) > 1 else b"", ch, rew, sc["controls"])
            for s in senders[:3 + len(r) % 6]:
                a2 = ask(b"S " + s.hex().encode() + b" " + rew.hex().encode())
                if a2 != b"S " + verp(s, rew).hex().encode():
                    return "senderadd(%r, %r) = %r, documented %r" % (s, rew, bytes.fromhex(a2[2:].decode()), verp(s, rew))
        return None
    scen = st.fixed_dictionaries({"controls": controls_strategy(), "rcpts": st.lists(recipient(), min_size=nrcp, max_size=nrcp)})
    try:
        vlib.hyp_search(scen, runfn, ncfg, seed, stats)
    finally:
        try:
            p.stdin.close()
            p.kill()
            p.wait()
        except Exception:
            pass
    return stats


def volume(ctx, tree):
    binp = build_volume(tree)
    jobs = [(binp, i, vlib.subseed(ctx.seed, "c10v", i), ctx.n(400, 6000), 40) for i in range(vlib.NCPU)]
    ctx.stats.merge(vlib.run_workers(vol_worker, jobs))
