"""C20, boundary sessions: ASan+UBSan builds of the three network daemons (whole programs: main(), environment handling, qmail.c and the
command loops on real descriptors - the glue that the in-process targets stub out) fed with the deterministic session grid of C07
(every exit status of the queue program, custom error texts on descriptor 6, start failures, size and hop limits, long environment
strings) plus sweeps over the lengths that meet internal fixed-size buffers: error text of 0..700 and 5000 bytes on descriptor 6
(qmail.c keeps 256), TCPREMOTEHOST/TCPREMOTEINFO/TCPLOCALHOST/RELAYCLIENT of up to 2000 bytes, addresses around 900/1000 bytes.
Oracle: memory safety only - no sanitizer report on the daemon's standard error, no death by SIGSEGV/SIGBUS/SIGILL/SIGABRT/SIGFPE.
The thorough tier additionally re-runs the complete generators of C07, C08, C13, C17 and C19 against sanitised programs."""
import os, re, signal
from lib import vlib, sandbox
from props import smtp_common as M
from props.smtp_common import J

BAD = {-signal.SIGSEGV, -signal.SIGBUS, -signal.SIGILL, -signal.SIGABRT, -signal.SIGFPE}
REPORT = re.compile(rb"(ERROR: AddressSanitizer: [^\n]*|[^\n]*runtime error: [^\n]*)")


def scenarios():
    from props import c07
    out = []
    smtp = lambda **kw: dict({"d": "smtpd", "env": {"TCPREMOTEIP": J(b"192.0.2.9")}, "ctl": {}, "db": None, "qq": {"mode": "qq", "exit": 0},
                              "cmds": c07.base_smtp(), "cut": None}, **kw)
    for n in list(range(0, 8)) + list(range(248, 264)) + [300, 511, 512, 513, 700, 1023, 1024, 1025, 5000]:
        for lead in (b"D", b"Z", b"x"):
            t = (lead + b"e" * n)[:max(n, 0)] if n else b""
            q = {"mode": "qq", "exit": 82, "fd6": J(t)}
            out.append(smtp(qq=q))
            out.append(dict(c07.base_qm("qmtpd"), qq=q))
            out.append(dict(c07.base_qm("qmqpd"), qq=q))
    for n in (0, 1, 63, 64, 65, 255, 256, 257, 999, 1000, 1001, 2000):
        for var in ("TCPREMOTEHOST", "TCPREMOTEINFO", "TCPLOCALHOST", "RELAYCLIENT", "TCPREMOTEIP", "DATABYTES"):
            v = (b"9" if var == "DATABYTES" else b"h") * n
            out.append(smtp(env={"TCPREMOTEIP": J(b"192.0.2.9"), var: J(v)}))
            out.append(dict(c07.base_qm("qmtpd"), env={var: J(v)}))
            out.append(dict(c07.base_qm("qmqpd"), env={var: J(v)}))
    for n in (890, 898, 899, 900, 901, 902, 996, 1000, 1003, 1004, 1500, 5000):
        a = b"l" * (n - 10) + b"@a.example"
        out.append(smtp(cmds=c07.base_smtp(rcpts=(a,))))
        out.append(dict(c07.base_qm("qmtpd", rcpts=(a, b"joe@a.example"))))
        out.append(dict(c07.base_qm("qmqpd", rcpts=(b"joe@a.example", a))))
    # the deterministic grid of C07 (sampled: it has several thousand entries)
    grid = c07.systematic("quick")
    out += grid[::7]
    return out


def worker(job):
    tree, wid, scs = job
    from props import c07
    stats = vlib.Stats()
    r = M.Runner(tree, "c20s-%s" % wid)
    r.base_env["ASAN_OPTIONS"] = "detect_leaks=0"
    r.base_env["UBSAN_OPTIONS"] = "print_stacktrace=1"
    ips = M.local_ipv4()
    for sc in scs:
        try:
            if sc["d"] == "smtpd":
                v, info, obs = M.run_smtp_scenario(r, sc, ips)
            else:
                v, info, obs = c07.run_qm_scenario(r, sc, {})
        except vlib.HarnessError:
            raise
        if obs.rc is None:
            stats.inconclusive += 1
            continue
        qq = sc["qq"]
        stats.case(scenario=sc, nontrivial=qq.get("exit", 0) != 0 or bool(sc.get("fault")) or any(k != "TCPREMOTEIP" for k in sc.get("env", {})),
                   classes=["sessions:" + sc["d"]] + (["sessions:error_text_on_fd6"] if qq.get("fd6") is not None else []), key=vlib.digest(sc))
        m = REPORT.search(obs.err or b"")
        if m or obs.rc in BAD:
            what = re.sub(rb"0x[0-9a-f]+", b"0x..", m.group(1)).decode("latin-1")[:200] if m else "killed by signal %d" % -obs.rc
            frames = re.findall(rb"#\d+ 0x[0-9a-f]+ in (\S+)", obs.err or b"")[:3]
            stats.violations.append(("sanitised qmail-%s in a boundary session: %s%s" % (sc["d"], what, (" in " + " < ".join(f.decode() for f in frames)) if frames else ""),
                                     dict(sc, part="sessions")))
            break
    return stats


def run_sessions_part(ctx):
    sandbox.ensure_shim()
    tree = vlib.Tree(sanitize=True, tag="-c20s").make(*M.TARGETS)
    scs = scenarios()
    nw = vlib.NCPU
    st = vlib.run_workers(worker, [(tree, i, scs[i::nw]) for i in range(nw) if scs[i::nw]])
    ctx.stats.merge(st)
    ctx.notes["boundary_sessions"] = len(scs)


def replay(ctx, sc):
    sandbox.ensure_shim()
    tree = vlib.Tree(sanitize=True, tag="-c20s").make(*M.TARGETS)
    sc = {k: v for k, v in sc.items() if k != "part"}
    out = [worker((tree, "replay%d" % i, [sc])).violations for i in range(3)]
    return [out[0][0][0]] if all(out) else []
