"""Shared by C07 and C08: runner for the three network daemons (qmail-smtpd, qmail-qmtpd, qmail-qmqpd) under the shim with a
scripted or the real queue program, parsers for what they print, and the reference models (written from qmail-smtpd.8,
qmail-qmtpd.8, qmail-qmqpd.8, qmail-queue.8, qmail-control.5, tcp-environ.5, RFC 5321 4.5.2 and the QMTP/QMQP/netstring
texts as summarised in DESIGN.md 5/C07 and 5/C08).  Nothing in here calls code of the tree under test to compute an
expected value."""
import os, re, time, calendar, socket, struct, array, fcntl
from lib import vlib, sandbox

DAEMON_BIN = {"smtpd": "qmail-smtpd", "qmtpd": "qmail-qmtpd", "qmqpd": "qmail-qmqpd"}
PROTO = {"smtpd": b"SMTP", "qmtpd": b"QMTP", "qmqpd": b"QMQP"}
TARGETS = ["qmail-smtpd", "qmail-qmtpd", "qmail-qmqpd", "qmail-queue", "qmail-newmrh"]


def B(x):
    """scenario value -> bytes (accepts bytes, str, {"b":..}/{"hex":..}, None)."""
    if x is None:
        return None
    if isinstance(x, bytes):
        return x
    if isinstance(x, str):
        return x.encode("latin-1")
    return vlib.unjson(x)


def J(b):
    return vlib.jsonable(b)


def alower(b):
    """ASCII-only lower-casing (domain names compare case-insensitively in ASCII)."""
    return bytes(c + 32 if 65 <= c <= 90 else c for c in b)


# ----------------------------------------------------------------------------------------------- local addresses

def local_ipv4():
    """IPv4 addresses configured on this host, found independently of ipme.c (SIOCGIFCONF from Python)."""
    out = set()
    try:
        s = socket.socket(socket.AF_INET, socket.SOCK_DGRAM)
        buf = array.array("B", b"\0" * 8192)
        addr, _ = buf.buffer_info()
        r = fcntl.ioctl(s.fileno(), 0x8912, struct.pack("iL", 8192, addr))
        n = struct.unpack("iL", r)[0]
        d = buf.tobytes()[:n]
        for i in range(0, n, 40):
            out.add(socket.inet_ntoa(d[i + 20:i + 24]))
        s.close()
    except Exception:
        pass
    return out


# ----------------------------------------------------------------------------------------------- runner

def parse_envelope_strict(b):
    """qmail-queue.8 envelope: F<sender> NUL (T<recipient> NUL)* NUL.  -> (sender, [recipients]) or None when the stream ends before
    the extra 0 byte or is malformed.  (sandbox.parse_envelope takes "F<sender> NUL" + EOF for a complete envelope without
    recipients, which is exactly the truncated case this check has to tell apart.)"""
    if not b or b[:1] != b"F":
        return None
    i = b.find(b"\0")
    if i < 0:
        return None
    sender = b[1:i]
    i += 1
    rcpts = []
    while True:
        if i >= len(b):
            return None
        if b[i] == 0:
            return sender, rcpts
        if b[i] != 84:
            return None
        j = b.find(b"\0", i)
        if j < 0:
            return None
        rcpts.append(b[i + 1:j])
        i = j + 1


class Obs:
    """What one daemon run did."""
    __slots__ = ("rc", "out", "err", "commits", "invocations", "t0", "t1", "recs")


class Runner:
    def __init__(self, tree, tag):
        self.tree = tree
        self.h = sandbox.Home(tree, os.path.join(vlib.scratch_root(), "net-%s" % tag))
        self.h.link_bins(["qmail-queue"])
        self.rec = os.path.join(self.h.dir, "rec")
        os.makedirs(self.rec, exist_ok=True)
        self.ctl = {}
        self.stdin_path = os.path.join(self.h.dir, "stdin")
        self.base_env = self.h.env(role="net", uid=self.h.uids["d"], trace=False)
        self.set_control({"me": "me.example"})

    # control files ---------------------------------------------------------------------------
    def set_control(self, ctl):
        """ctl: name -> bytes/str content (already formatted) or None (absent). `morercpthosts` is compiled with the real qmail-newmrh."""
        names = ["me", "rcpthosts", "morercpthosts", "badmailfrom", "localiphost", "databytes", "smtpgreeting", "timeoutsmtpd"]
        for n in names:
            v = ctl.get(n)
            if isinstance(v, str):
                v = v.encode("latin-1")
            if self.ctl.get(n) == v:
                continue
            self.ctl[n] = v
            self.h.control(n, v)
            if n == "morercpthosts":
                cdb = os.path.join(self.h.dir, "control", "morercpthosts.cdb")
                if os.path.exists(cdb):
                    os.unlink(cdb)
                if v is not None:
                    rc, out, err = sandbox.run_proc([self.tree.path("qmail-newmrh")], self.base_env)
                    if rc != 0 or not os.path.exists(cdb):
                        raise vlib.HarnessError("qmail-newmrh failed rc=%s %r" % (rc, err[-300:]))

    # queue program ---------------------------------------------------------------------------
    def _qq_env(self, qq):
        mode = qq["mode"]
        for f in os.listdir(self.rec):
            try:
                os.unlink(os.path.join(self.rec, f))
            except FileNotFoundError:
                pass
        if mode == "real":
            self.h.clean_queue()
            return {}
        if mode == "nowhere":
            return {"QMAILQUEUE": os.path.join(self.h.dir, "no", "such", "program")}
        ex = qq.get("exit", 0)
        seq = None
        if isinstance(ex, list):
            seq, ex = ex, 0
        e = sandbox.standin_env(self.rec, read="" if mode == "noread" else "01", qq=(mode in ("qq", "kill")),
                                exit=ex, exit_seq=seq, kill=qq.get("sig") if mode == "kill" else None,
                                fd6=B(qq.get("fd6")) if qq.get("fd6") is not None else None)
        e["QMAILQUEUE"] = sandbox.STANDIN
        return e

    def run(self, daemon, stdin, env, qq, timeout=20, fault=None):
        """env: {name: bytes|None}; fault: {"cls": "pipe"|"fork", "k": n, "errno": e} = the daemon's n-th pipe()/fork() fails.
        Returns Obs (rc None = watchdog)."""
        e = dict(self.base_env)
        e.update(self._qq_env(qq))
        if fault:
            e["VSHIM_FAULT"] = "%s:%s:%d:%d%s" % (DAEMON_BIN[daemon], fault["cls"], fault["k"], fault["errno"], "+" if fault.get("persist") else "")
        for k, v in env.items():
            if v is not None:
                e[k] = v
        with open(self.stdin_path, "wb") as f:
            f.write(stdin)
        o = Obs()
        trig = None
        if qq.get("trig") and qq["mode"] == "real":
            # the reader of lock/trigger is there when the real queue program opens the FIFO and gone (or its pipe full) when it writes the
            # wake-up byte AFTER the commit point: "if it fails, bummer" - the message is queued and must be acknowledged as such
            trig = os.open(os.path.join(self.h.queue, "lock", "trigger"), os.O_RDONLY | os.O_NONBLOCK)
            if not fault:
                e["VSHIM_FAULT"] = "qmail-queue:pwrite:0:%d" % qq["trig"]
        o.t0 = int(time.time())
        try:
            o.rc, o.out, o.err = sandbox.run_proc([self.tree.path(DAEMON_BIN[daemon])], e, stdin_file=self.stdin_path, timeout=timeout)
        finally:
            if trig is not None:
                os.close(trig)
        o.t1 = int(time.time())
        o.commits, o.invocations, o.recs = self._collect(qq)
        return o

    def session(self, daemon, env, qq):
        """Interactive variant (pipes); caller must kill() the returned sandbox.Session and then call collect(qq)."""
        e = dict(self.base_env)
        e.update(self._qq_env(qq))
        for k, v in env.items():
            if v is not None:
                e[k] = v
        return sandbox.Session([self.tree.path(DAEMON_BIN[daemon])], e)

    def collect(self, qq):
        return self._collect(qq)

    def _collect(self, qq):
        """-> (commits [{msg, sender, rcpts, strip}], number of queue invocations seen, raw records)"""
        mode = qq["mode"]
        if mode == "nowhere":
            return [], 0, []
        if mode == "real":
            h = self.h
            snap, bad, pids = h.snapshot()
            got = []
            for n, s in snap.items():
                if "todo" in s:
                    p = h.qpath("todo", n)
                    env = open(p, "rb").read()
                    msg = open(h.qpath("mess", n), "rb").read() if "mess" in s else None
                    got.append((os.stat(p).st_mtime_ns, n, env, msg))
            got.sort()
            commits = []
            for _, n, env, msg in got:
                m = re.match(rb"^u(\d+)\0p(\d+)\0", env)
                se = None
                if m:
                    se = parse_envelope_strict(env[m.end():] + b"\0")
                    ex = getattr(self, "extra_rcpt", None)
                    if ex and se:
                        # FAQ 8.2 build: the queue program adds its own first recipient record; it is taken off here, and anything else
                        # in its place shows up as a recipient nobody was acknowledged for
                        se = (se[0], se[1][1:] if se[1][:1] == [ex] else [b"<QUEUE_EXTRA record missing or fused>"] + se[1])
                commits.append({"msg": msg, "sender": se[0] if se else None, "rcpts": se[1] if se else None, "real": True,
                                "uid": int(m.group(1)) if m else None, "pid": int(m.group(2)) if m else None})
            ninv = len(snap)
            h.clean_queue()
            return commits, ninv, []
        recs = sandbox.standin_records(self.rec)
        commits = []
        for r in recs:
            ok = r.get("commit", False)
            se = parse_envelope_strict(r.get("fd1", b""))
            if mode == "lenient":
                # a queue program that exits 0 even after a truncated envelope: what it has "queued" is what arrived completely
                ok = r.get("meta", {}).get("exit") == "0" and se is not None
            if ok:
                commits.append({"msg": r.get("fd0"), "sender": se[0] if se else None, "rcpts": se[1] if se else None, "real": False})
        return commits, len(recs), recs


# ----------------------------------------------------------------------------------------------- queue program model

def queue_outcome(qq, k):
    """Documented meaning of what the k-th invocation of the scripted queue program does (qmail-queue.8 EXIT CODES):
    "ok" (exit 0: queued), "perm" (11..40, 82 + "D..."), "temp" (every other failure), "neg" (documents leave the class open),
    "racy" (exit 0 without ever reading its input: the daemon may or may not see EPIPE)."""
    mode = qq["mode"]
    if mode in ("real", "lenient"):
        return "ok"
    if mode in ("nowhere", "kill"):
        return "temp"                       # exec failure (120) / crashed
    ex = qq.get("exit", 0)
    e = ex[min(k, len(ex) - 1)] if isinstance(ex, list) else ex
    if e == 0:
        return "racy" if mode == "noread" else "ok"
    if e == 82:
        t = B(qq.get("fd6")) or b""
        if len(t) > 2 and t[:1] == b"D":
            return "perm"
        if t[:1] == b"Z":
            return "temp"
        return "neg"                        # short "D"/"Dx", empty or foreign text: class not documented
    if e == 115:
        return "neg"                        # outside the documented 1..99 range and special-cased by history
    if 11 <= e <= 40:
        return "perm"
    return "temp"


# ----------------------------------------------------------------------------------------------- Received field

SAFE = set(b".@%+/=:-[]") | set(range(48, 58)) | set(range(65, 91)) | set(range(97, 123))
MONTHS = [b"Jan", b"Feb", b"Mar", b"Apr", b"May", b"Jun", b"Jul", b"Aug", b"Sep", b"Oct", b"Nov", b"Dec"]
DATE_RE = re.compile(rb"(\d{1,2}) (Jan|Feb|Mar|Apr|May|Jun|Jul|Aug|Sep|Oct|Nov|Dec) (\d{4}) (\d\d):(\d\d):(\d\d) -0000\n")
QQ_RECV_RE = re.compile(rb"^Received: \(qmail \d+ invoked from network\); \d{1,2} \w{3} \d{4} \d\d:\d\d:\d\d -0000\n")


def sanitize(s):
    return bytes(c if c in SAFE else 63 for c in s)


def check_received(msg, proto, env, helo, t0, t1):
    """Clause 3.  -> (length of the field, slack?, error or None).  `helo` = argument of the last HELO/EHLO or None."""
    rh = env.get("TCPREMOTEHOST")
    rh = b"unknown" if rh is None else rh
    ip = env.get("TCPREMOTEIP")
    ip = b"unknown" if ip is None else ip
    info = env.get("TCPREMOTEINFO")
    local = env.get("TCPLOCALHOST")
    if local is None:
        local = env.get("TCPLOCALIP")
    if local is None:
        local = b"unknown"
    head = b"Received: from " + sanitize(rh)
    tail = (b" (" + (sanitize(info) + b"@" if info is not None else b"") + sanitize(ip) + b")\n  by " + sanitize(local) +
            b" with " + proto + b"; ")
    plain = head + tail
    if helo is None:
        cands = [(plain, False)]
    else:
        withh = head + b" (HELO " + sanitize(helo) + b")" + tail
        if alower(helo) == alower(rh):
            cands = [(plain, False), (withh, False)]
        else:
            cands = [(withh, False), (plain, True)]    # the documents never say when the HELO name is shown
    if msg is None:
        return None, False, "no message bytes recorded"
    for c, slack in cands:
        if msg.startswith(c):
            m = DATE_RE.match(msg, len(c))
            if not m:
                return None, False, "Received field: date malformed: %r" % msg[len(c):len(c) + 40]
            try:
                ts = calendar.timegm((int(m.group(3)), MONTHS.index(m.group(2)) + 1, int(m.group(1)),
                                      int(m.group(4)), int(m.group(5)), int(m.group(6))))
            except Exception:
                return None, False, "Received field: date unparsable"
            if not (t0 - 2 <= ts <= t1 + 2):
                return None, False, "Received field: date %d outside the run interval [%d,%d]" % (ts, t0, t1)
            return m.end(), slack, None
    return None, False, "Received field %r is not the sanitised environment %r" % (msg[:len(cands[0][0]) + 30], cands[0][0])


# ----------------------------------------------------------------------------------------------- SMTP wire helpers

def smtp_encode(msg):
    """Reference RFC 5321 sender: LF lines -> CRLF, dot-stuffing, terminator.  A message lacking the final newline gets one."""
    if msg == b"":
        return b".\r\n"
    lines = msg.split(b"\n")
    if msg.endswith(b"\n"):
        lines.pop()
    return b"".join((b"." + l if l.startswith(b".") else l) + b"\r\n" for l in lines) + b".\r\n"


def smtp_decode(wire):
    """Reference receiver R (DESIGN 5/C05): -> ("end", stored, consumed, slack) | ("stray", offset) | ("eof",)."""
    out = []
    pos = 0
    n = len(wire)
    slack = False
    while True:
        # find end of line: first LF
        j = wire.find(b"\n", pos)
        if j < 0:
            return ("eof",)
        if j == pos or wire[j - 1] != 13:
            return ("stray", j)
        line = wire[pos:j - 1]
        pos = j + 1
        if line == b".":
            return ("end", b"".join(out), pos, slack)
        if line.startswith(b"."):
            if line[1:2] == b"\r":
                slack = True                  # ".\rX": RFC deletes the dot, the documents do not say (C05 slack region)
            line = line[1:]
        out.append(line + b"\n")


VERBS = {b"helo", b"ehlo", b"mail", b"rcpt", b"data", b"rset", b"noop", b"vrfy", b"help", b"quit"}


def parse_smtp_replies(out):
    """-> ([(code, [text lines])], error or None). Every line must be `ddd[ -]text CRLF`, text without CR/LF."""
    replies = []
    if out == b"":
        return replies, None
    lines = out.split(b"\r\n")
    if lines[-1] != b"":
        return replies, "output does not end with CR LF: %r" % out[-60:]
    cur = None
    for l in lines[:-1]:
        m = re.match(rb"^(\d{3})([ -])([^\r\n]*)$", l)
        if not m:
            return replies, "malformed reply line %r" % l[:100]
        code = int(m.group(1))
        if cur is not None and cur[0] != code:
            return replies, "multi-line reply changes code: %r" % l[:100]
        if cur is None:
            cur = (code, [])
        cur[1].append(m.group(3))
        if m.group(2) == b" ":
            replies.append(cur)
            cur = None
    if cur is not None:
        return replies, "unterminated multi-line reply"
    return replies, None


# ----------------------------------------------------------------------------------------------- netstrings

def ns(b):
    return b"%d:" % len(b) + b + b","


def parse_netstrings(out, allow_truncated=False):
    """-> (list of payloads, error or None)"""
    res = []
    pos = 0
    while pos < len(out):
        m = re.compile(rb"(0|[1-9]\d{0,8}):").match(out, pos)
        if not m:
            if allow_truncated and re.compile(rb"\d{0,9}$").match(out, pos):
                return res, None
            return res, "malformed netstring in output at %d: %r" % (pos, out[pos:pos + 40])
        n = int(m.group(1))
        end = m.end() + n
        if end + 1 > len(out):
            if allow_truncated:
                return res, None
            return res, "truncated netstring in output: %r" % out[pos:pos + 60]
        if out[end:end + 1] != b",":
            return res, "netstring without comma in output: %r" % out[pos:pos + 60]
        res.append(out[m.end():end])
        pos = end + 1
    return res, None


class EOFX(Exception):
    pass


class Bad(Exception):
    pass


class Vague(Exception):
    """A region the protocol texts do not pin down (length beyond 10^9, empty length, leading zeros)."""
    pass


class Rd:
    def __init__(self, data):
        self.d = data
        self.p = 0

    def get(self):
        if self.p >= len(self.d):
            raise EOFX()
        c = self.d[self.p]
        self.p += 1
        return c

    def take(self, n):
        if self.p + n > len(self.d):
            self.p = len(self.d)
            raise EOFX()
        b = self.d[self.p:self.p + n]
        self.p += n
        return b

    def comma(self):
        if self.get() != 44:
            raise Bad()


def ns_len(rd, budget=None):
    """Read `digits ':'`.  budget = [bytes left in the enclosing netstring] (decremented) or None."""
    n = 0
    nd = 0
    first = None
    while True:
        if budget is not None:
            if budget[0] <= 0:
                raise Bad()
            budget[0] -= 1
        c = rd.get()
        if c == 58:
            if nd == 0 or (nd > 1 and first == 48):
                raise Vague()
            return n
        if not 48 <= c <= 57:
            raise Bad()
        if nd == 0:
            first = c
        n = n * 10 + (c - 48)
        nd += 1
        if n > 10 ** 9:
            raise Vague()


def qmtp_decode(mode, raw):
    """QMTP message body as stored: LF mode verbatim; CR LF mode turns CR LF into LF and keeps every other CR."""
    if mode == 10:
        return raw
    return raw.replace(b"\r\n", b"\n")


def policy_allows(addr, rcpthosts, more):
    """qmail-smtpd.8 rcpthosts: no list => everything; no @ => allowed; else the domain (after the last @) must be listed exactly or
    be covered by a wildcard entry `.suffix` (a suffix of the domain starting at a dot), ignoring ASCII case."""
    if rcpthosts is None:
        return True
    i = addr.rfind(b"@")
    if i < 0:
        return True
    dom = alower(addr[i + 1:])
    entries = set(alower(e) for e in rcpthosts) | set(alower(e) for e in (more or []))
    if dom in entries:
        return True
    for j in range(len(dom)):
        if dom[j] == 46 and dom[j:] in entries:
            return True
    return False


def effective_entries(entries):
    """What a control file with these lines means: trailing spaces/tabs dropped, empty lines and # comments ignored."""
    if entries is None:
        return None
    out = []
    for e in entries:
        e = e.rstrip(b" \t")
        if e == b"" or e.startswith(b"#"):
            continue
        out.append(e)
    return out


# ----------------------------------------------------------------------------------------------- message bodies

def casemix(name, k):
    out = bytearray()
    for i, c in enumerate(name):
        if 65 <= c <= 90 or 97 <= c <= 122:
            up = (k >> (i % 13)) & 1
            c = (c & ~32) if up else (c | 32)
        out.append(c)
    return bytes(out)


OTHER_HDRS = [b"Subject: received\n", b"Receive: near miss\n", b"XReceived: no\n", b"Delivere: no\n", b" received: folded line\n",
              b"X-Delivered-To: no\n", b"To: x@y\n", b"\treceived: tab-folded\n"]


def build_message(b):
    """Message (UNIX newline convention) from a compact spec:
    {"recv": n, "deliv": m, "case": k, "other": j, "sep": bool, "brecv": n2, "pat": bytes, "len": N, "nl": bool}"""
    k = b.get("case", 0)
    names = [b"Received"] * b.get("recv", 0) + [b"Delivered-To"] * b.get("deliv", 0)
    names = names[::2] + names[1::2]
    hdr = [casemix(nm, k + i) + b": h%d\n" % i for i, nm in enumerate(names)]
    for i in range(b.get("other", 0)):
        hdr.insert((k + i * 3) % (len(hdr) + 1), OTHER_HDRS[(k + i) % len(OTHER_HDRS)])
    out = b"".join(hdr)
    if b.get("sep", True):
        out += b"\n" + b"Received: in the body\n" * b.get("brecv", 0)
    pat = B(b.get("pat")) or b"x"
    n = b.get("len", 0)
    out += (pat * (n // len(pat) + 1))[:n]
    if b.get("nl", True) and not out.endswith(b"\n"):
        out += b"\n"
    return out


def hop_fields(lines):
    """(definite, doubtful) number of Received/Delivered-To header fields in the header (lines before the first empty one).
    doubtful = lines whose name merely begins with received/delivered (the documents speak of the two fields only)."""
    n = d = 0
    for line in lines:
        if line == b"":
            break
        l = alower(line)
        if l.startswith(b"received:") or l.startswith(b"delivered-to:"):
            n += 1
        elif l.startswith(b"received") or l.startswith(b"delivered"):
            d += 1
    return n, d


def make_addr(a):
    """{"a": bytes} literal or {"pat": bytes, "len": n} repeated pattern."""
    if "a" in a:
        return B(a["a"])
    pat = B(a["pat"]) or b"a"
    return (pat * (a["len"] // len(pat) + 1))[:a["len"]]


# ----------------------------------------------------------------------------------------------- SMTP session model

MAXADDR_OK = 898       # addresses up to here must be accepted, from 901 on must be refused (property: "around 900"); 899/900 open
MAXADDR_BAD = 901
IPLIT_RE = re.compile(rb"^(.*)@\[(\d{1,10})\.(\d{1,10})\.(\d{1,10})\.(\d{1,10})\]$", re.S)


def iplit_variants(addr, cfg):
    """-> (list of addresses the documents allow after the localiphost rule, slack?)"""
    m = IPLIT_RE.match(addr)
    if not m:
        return [addr], False
    octs = [m.group(i) for i in range(2, 6)]
    sub = m.group(1) + b"@" + cfg["liphost"]
    if any(int(o) > 255 for o in octs):
        return [addr], False               # not an IP address at all, hence not "a local IP address"
    if any(len(o) > 1 and o[:1] == b"0" for o in octs):
        return [addr, sub], True           # leading zeros: arguably the same dotted-decimal address; open
    ip = ".".join(str(int(o)) for o in octs)
    if ip == "0.0.0.0":
        return [addr, sub], True           # "this host" by RFC 1122; the man page only says "a local IP address"
    if ip in cfg["local_ips"]:
        return [sub], False
    return [addr], False


def bmf_eval(addr, bmf):
    """-> set of possible flagbarf values"""
    if not bmf:
        return {False}
    i = addr.rfind(b"@")
    keys = [addr] + ([addr[i:]] if i >= 0 else [])
    if any(k in bmf for k in keys):
        return {True}
    low = set(alower(e) for e in bmf)
    if any(alower(k) in low for k in keys):
        return {True, False}               # differs in case only: the man page does not say
    return {False}


class SmtpModel:
    """Transaction model of qmail-smtpd.8 / DESIGN 5/C08, nondeterministic where the documents are silent: a set of possible
    states (seen, sender alternatives, barf, recipients) is carried and pruned by the observed reply classes."""

    def __init__(self, cfg):
        self.cfg = cfg
        self.states = {(False, None, False, ())}
        self.helo = None
        self.slack = 0

    def reset(self):
        self.states = {(False, None, False, ())}

    # each step returns {reply class: set(new states)}
    def step_mail(self, addr):
        res = {2: set(), 5: set()}
        for s in self.states:
            outs = []
            if addr is None:
                outs = [(2, (True, None, False, ())), (2, (True, None, True, ())), (5, s), (5, (False, None, False, ()))]
                self.slack += 1
            else:
                alts, sl = iplit_variants(addr, self.cfg)
                if len(alts) == 1 and alts[0] != addr:
                    alts = [addr, alts[0]]       # substitution is documented for recipients only
                    sl = True
                ln = max(len(a) for a in alts)
                mn = min(len(a) for a in alts)
                can_ok = mn <= MAXADDR_BAD - 1
                can_bad = ln > MAXADDR_OK
                if can_ok:
                    barfs = set()
                    for a in alts:
                        barfs |= bmf_eval(a, self.cfg["bmf"])
                    for bf in barfs:
                        outs.append((2, (True, tuple(alts), bf, ())))
                    if len(barfs) > 1 or sl:
                        self.slack += 1
                if can_bad:
                    outs.append((5, s))
                    outs.append((5, (False, None, False, ())))   # whether a refused MAIL discards the open transaction is not stated
            for cls, ns_ in outs:
                res[cls].add(ns_)
        return res

    def step_rcpt(self, addr):
        res = {2: set(), 5: set()}
        cfg = self.cfg
        for s in self.states:
            seen, sender, barf, rcpts = s
            if not seen:
                res[5].add(s)
                continue
            if addr is None:
                res[2].add((seen, sender, barf, rcpts + (None,)))
                res[5].add(s)
                self.slack += 1
                continue
            alts, sl = iplit_variants(addr, cfg)
            if sl:
                self.slack += 1
            for a in alts:
                # the length limit ("around 900") applies to the address that is checked and stored, i.e. after the localiphost rule
                # (property C08: "local IP-literal domains are replaced before that check"); literals that are open (0.0.0.0, leading
                # zeros) are judged under both readings through the two alternatives
                lens = (len(a),)
                if max(lens) > MAXADDR_OK:
                    res[5].add(s)
                if min(lens) >= MAXADDR_BAD:
                    continue
                if barf:
                    res[5].add(s)
                    continue
                if cfg["relay"] is not None:
                    res[2].add((seen, sender, barf, rcpts + ((a + cfg["relay"],),)))
                elif policy_allows(a, cfg["rcpthosts"], cfg["more"]):
                    res[2].add((seen, sender, barf, rcpts + ((a,),)))
                else:
                    res[5].add(s)
        return res

    def observe(self, res, cls):
        """Prune by the observed class; False if the model does not allow it."""
        ns_ = res.get(cls)
        if not ns_:
            return False
        self.states = set(ns_)
        return True


def state_txt(states):
    out = []
    for seen, sender, barf, rcpts in sorted(states, key=repr)[:3]:
        out.append("(mail=%s sender=%r barf=%s rcpts=%r)" % (seen, sender, barf, rcpts))
    return " | ".join(out)[:600]


def match_commit(states, commit):
    """Does the committed envelope equal (sender of the last MAIL, the accepted recipients in order) of a possible state?"""
    for seen, sender, barf, rcpts in states:
        if not seen or not rcpts:
            continue
        if sender is not None and commit["sender"] not in sender:
            continue
        got = commit["rcpts"]
        if got is None or len(got) != len(rcpts):
            continue
        if all(alt is None or g in alt for g, alt in zip(got, rcpts)):
            return True
    return False


def cmd_wire(cmd):
    if "wire" in cmd:
        return B(cmd["wire"])
    w = smtp_encode(build_message(cmd["body"]))
    mut = cmd.get("wmut")
    if mut:
        if mut["k"] == "barelf":
            at = mut["at"] % (len(w) + 1)
            w = w[:at] + b"\n" + w[at:]
        elif mut["k"] == "noterm":
            w = w[:-3]
        elif mut["k"] == "lfterm":
            w = w[:-3] + b".\n"
    return w


def smtp_stream(cmds):
    return b"".join(B(c["line"]) + (cmd_wire(c) if c["t"] == "data" else b"") for c in cmds)


def helo_arg(line):
    l = line[:-1] if line.endswith(b"\n") else line
    if l.endswith(b"\r"):
        l = l[:-1]
    i = l.find(b" ")
    return b"" if i < 0 else l[i:].lstrip(b" ")


def strip_qq_received(commit):
    """Real qmail-queue puts its own Received line on top (C01 checks it); returns the rest or None."""
    msg = commit["msg"]
    if not commit.get("real"):
        return msg
    if msg is None:
        return None
    m = QQ_RECV_RE.match(msg)
    return msg[m.end():] if m else None


def real_addr_verdict(states):
    """Real qmail-queue refuses over-long envelope addresses with 11 (permanent); the limit is "around 1003"."""
    worst = 0
    for seen, sender, barf, rcpts in states:
        for alt in ([sender] if sender else []) + list(rcpts):
            if alt:
                worst = max(worst, max(len(a) for a in alt))
    if worst >= 1004:
        return "perm"
    if worst >= 999:
        return "open"
    return None


def smtp_check(sc, cfg, obs, info):
    """Walk the session against the model.  sc: {"cmds": [...], "cut": int|None}; cfg: model configuration incl. "qq", "env",
    "databytes".  info (dict) receives counters.  Returns a violation message or None."""
    replies, err = parse_smtp_replies(obs.out)
    if err:
        return "reply stream not well formed: " + err
    cmds = sc["cmds"]
    cut = sc.get("cut")
    qq = cfg["qq"]
    db = cfg["databytes"]
    model = SmtpModel(cfg)
    # one injected system-call failure (socket/open/read/... fails once): the daemon may refuse temporarily or give up at any point, but
    # whatever it does accept must still obey the transaction and relay rules ("sysfault" scenarios)
    lenient = bool(cfg.get("sysfault"))
    if lenient and (not replies or replies[0][0] // 100 == 4):
        info.update(acks=0, neg4=1, neg5=0, rcpt_ok=0, rcpt_no=0, resets_in_txn=0, data_refused=0, degraded=False, slack=0,
                    stray=False, eof_in_data=False, hops=False, size=False, quit=False, inv=0, gave_up="start")
        if obs.commits and qq["mode"] != "noread":
            return "the daemon gave up at start-up after an injected system-call failure, yet %d objects were committed" % len(obs.commits)
        if len(replies) > 1:
            return "the daemon refused service (%d) but went on answering: %r" % (replies[0][0], [x[0] for x in replies][:10])
        return None
    if not replies or replies[0][0] != 220:
        return "no 220 greeting: %r" % obs.out[:120]
    full = smtp_stream(cmds)
    stream = full if cut is None else full[:cut]
    starts = []
    p = 0
    for cmd in cmds:
        starts.append(p)
        p += len(B(cmd["line"])) + (len(cmd_wire(cmd)) if cmd["t"] == "data" else 0)
    r = 1
    c = 0
    pos = 0
    inv = 0
    opens = 0
    fault_at = cfg.get("fault_at")
    commits = obs.commits
    info.update(acks=0, neg4=0, neg5=0, rcpt_ok=0, rcpt_no=0, resets_in_txn=0, data_refused=0, degraded=False, slack=0,
                stray=False, eof_in_data=False, hops=False, size=False, quit=False, inv=0)

    def ctx(i):
        return " | at command #%d %r; replies %r" % (i, B(cmds[i]["line"])[:80], [x[0] for x in replies][:40])

    def degrade():
        # only the text-independent invariants: every 354 is followed by at most one final reply; commits = positive ones
        info["degraded"] = True
        info["inv"] = inv
        n2 = 0
        for j, (code, _) in enumerate(replies):
            if code == 354 and j + 1 < len(replies) and replies[j + 1][0] // 100 == 2:
                n2 += 1
        if n2 != len(commits) and qq["mode"] != "noread":
            return "%d positive replies after 354 but %d committed objects" % (n2, len(commits))
        return None

    def generic_lines(data, i, at_eof):
        """Bytes that the server reads as command lines (DATA was refused): one 5xx reply per complete line."""
        nonlocal r
        lines = data.split(b"\n")
        if lines[-1] != b"" and not at_eof:
            return "DEGRADE"
        for l in lines[:-1]:
            if l.endswith(b"\r"):
                l = l[:-1]
            verb = l.split(b" ")[0].split(b"\0")[0]
            if alower(verb) in VERBS or b"\0" in l:
                return "DEGRADE"
            if r >= len(replies):
                if lenient:
                    return "DEGRADE"            # the daemon died after the injected failure
                return "no reply to the line %r sent after a refused DATA" % l[:60] + ctx(i)
            if replies[r][0] // 100 != 5:
                return "unknown command %r answered %d" % (l[:60], replies[r][0]) + ctx(i)
            r += 1
        return None

    i = 0
    while i < len(cmds):
        cmd = cmds[i]
        line = B(cmd["line"])
        pos = starts[i]
        end = pos + len(line)
        if end > len(stream):
            break                               # the line never arrived completely: not executed
        pos = end
        t = cmd["t"]
        if r >= len(replies):
            if lenient:
                info["gave_up"] = "cmd%d" % i        # the daemon died after the injected failure: nothing more may have been committed
                break
            return "no reply to command" + ctx(i)
        code = replies[r][0]
        cls = code // 100
        r += 1
        nxt = i + 1
        if lenient and cls == 4 and t != "data":
            # temporary refusal under the injected failure: the command had no effect (a refused MAIL may or may not end the transaction)
            info["neg4"] += 1
            if t == "mail":
                model.states = set(model.states) | {(False, None, False, ())}
            i = nxt
            continue
        if lenient and cls == 4 and t == "data":
            info["neg4"] += 1
            return degrade()
        if t in ("helo", "ehlo"):
            if cls != 2:
                return "%s answered %d" % (t, code) + ctx(i)
            if any(s[0] for s in model.states):
                info["resets_in_txn"] += 1
            model.helo = helo_arg(line)
            model.reset()
        elif t == "rset":
            if cls != 2:
                return "RSET answered %d" % code + ctx(i)
            if any(s[0] for s in model.states):
                info["resets_in_txn"] += 1
            model.reset()
        elif t in ("noop", "vrfy", "help"):
            if cls != 2:
                return "%s answered %d" % (t, code) + ctx(i)
        elif t == "unknown":
            if cls != 5:
                return "unknown command answered %d" % code + ctx(i)
        elif t == "quit":
            if cls != 2:
                return "QUIT answered %d" % code + ctx(i)
            info["quit"] = True
            break
        elif t == "mail":
            if any(s[0] for s in model.states):
                info["resets_in_txn"] += 1
            res = model.step_mail(B(cmd.get("addr")))
            if not model.observe(res, cls):
                return "MAIL answered %d, the model allows classes %s" % (code, sorted(k for k in res if res[k])) + ctx(i)
        elif t == "rcpt":
            before = state_txt(model.states)
            res = model.step_rcpt(B(cmd.get("addr")))
            if not model.observe(res, cls):
                return ("RCPT answered %d, the model allows classes %s; state %s" %
                        (code, sorted(k for k in res if res[k]), before)) + ctx(i)
            if cls == 2:
                info["rcpt_ok"] += 1
            else:
                info["rcpt_no"] += 1
        elif t == "data":
            wire_end = starts[i + 1] if i + 1 < len(cmds) else len(full)
            acc = set(s for s in model.states if s[0] and s[3])
            ref = set(s for s in model.states if not (s[0] and s[3]))
            if acc and fault_at is not None and fault_at == opens and (cls != 5 or not ref):
                # the queue program could not be started (pipe/fork failure): resource trouble => temporary, nothing queued,
                # no 354, and the transaction is over; what the client pipelined as data is read as commands
                opens += 1
                if cls != 4:
                    return "DATA answered %d although the queue program could not be started (temporary error expected)" % code + ctx(i)
                info["neg4"] += 1
                info["qq_start_failed"] = True
                model.reset()
                g = generic_lines(stream[pos:wire_end], i, wire_end >= len(stream))
                if g == "DEGRADE":
                    return degrade()
                if g:
                    return g
            elif code == 354:
                if not acc:
                    return "DATA answered 354 although no MAIL with an accepted RCPT is pending; state %s" % state_txt(model.states) + ctx(i)
                model.states = acc
                k = inv
                inv += 1
                opens += 1
                # the data runs to the first CR LF . CR LF of the *stream*, whatever the client meant
                dec = smtp_decode(stream[pos:])
                if dec[0] == "eof":
                    info["eof_in_data"] = True
                    if r != len(replies):
                        return "reply %d after 354 although the client vanished inside DATA" % replies[r][0] + ctx(i)
                    model.reset()
                    break
                if dec[0] == "stray":
                    info["stray"] = True
                    # qmail-smtpd.8: "returns a temporary error and drops the connection on bare LFs"
                    if lenient and r >= len(replies):
                        return degrade()
                    if r >= len(replies) or replies[r][0] // 100 != 4:
                        return "bare LF in DATA not answered with a temporary error" + ctx(i)
                    r += 1
                    if r != len(replies):
                        return "connection not dropped after a bare LF (further reply %d)" % replies[r][0] + ctx(i)
                    model.reset()
                    info["neg4"] += 1
                    break
                _, stored, consumed, dslack = dec
                wlines = stream[pos:pos + consumed].split(b"\r\n")
                hops, doubtful = hop_fields(wlines)
                allowed = None
                if hops >= 100:
                    allowed = {5}
                    info["hops"] = True
                elif hops + doubtful >= 100:
                    allowed = {2, 5}
                    info["slack"] += 1
                if db and len(stored) > db:
                    allowed = {5} if allowed in (None, {5}) else allowed
                    info["size"] = True
                if allowed is None:
                    oc = queue_outcome(qq, k)
                    if qq["mode"] == "real":
                        oc = real_addr_verdict(model.states) or oc
                    allowed = {"ok": {2}, "perm": {5}, "temp": {4}, "neg": {4, 5}, "racy": {2, 4}, "open": {2, 5}}[oc]
                    if oc in ("neg", "racy", "open"):
                        info["slack"] += 1
                if lenient:
                    allowed = set(allowed) | {4}        # the injected failure may hit this submission: temporary refusal, nothing queued
                if r >= len(replies):
                    if lenient:
                        return degrade()
                    return "no final reply to DATA" + ctx(i)
                fcode = replies[r][0]
                fcls = fcode // 100
                r += 1
                if fcls not in allowed:
                    return ("DATA finished with %d, documented class %s (hops=%d stored=%d databytes=%d queue=%s)" %
                            (fcode, sorted(allowed), hops, len(stored), db, qq)) + ctx(i)
                if fcls == 2:
                    info["acks"] += 1
                    if qq["mode"] == "noread":
                        pass                    # the stand-in claimed success without reading: nothing to compare
                    else:
                        if c >= len(commits):
                            return "250 after DATA but nothing was committed to the queue" + ctx(i)
                        cm = commits[c]
                        c += 1
                        if cm["sender"] is None:
                            return "committed envelope malformed" + ctx(i)
                        if not match_commit(model.states, cm):
                            return ("committed envelope (%r, %r) is not (sender of the last MAIL, accepted recipients): %s" %
                                    (cm["sender"][:80], [x[:80] for x in cm["rcpts"]][:8], state_txt(model.states))) + ctx(i)
                        body = strip_qq_received(cm)
                        if body is None:
                            return "queued message lacks qmail-queue's Received line" + ctx(i)
                        n, hslack, e = check_received(body, b"SMTP", cfg["env"], model.helo, obs.t0, obs.t1)
                        if e:
                            return e + ctx(i)
                        if hslack:
                            info["slack"] += 1
                        if dslack:
                            info["slack"] += 1
                        elif body[n:] != stored:
                            return ("committed body differs from the decoded DATA: %d bytes vs %d (first difference at %d)" %
                                    (len(body) - n, len(stored), next((j for j in range(min(len(body) - n, len(stored)))
                                                                       if body[n + j] != stored[j]), -1))) + ctx(i)
                else:
                    info["neg%d" % fcls] += 1
                pos += consumed
                model.reset()
                if pos != wire_end:
                    # the terminator was not where the client put it: go on where a later command starts, else invariants only
                    if pos in starts[i + 1:]:
                        nxt = starts.index(pos, i + 1)
                    elif pos < wire_end:
                        g = generic_lines(stream[pos:wire_end], i, wire_end >= len(stream))
                        if g == "DEGRADE":
                            return degrade()
                        if g:
                            return g
                    else:
                        return degrade()
            elif cls == 5:
                if not ref:
                    return "DATA refused with %d although MAIL and an accepted RCPT are pending; state %s" % (code, state_txt(model.states)) + ctx(i)
                model.states = ref
                info["data_refused"] += 1
                g = generic_lines(stream[pos:wire_end], i, wire_end >= len(stream))
                if g == "DEGRADE":
                    return degrade()
                if g:
                    return g
            else:
                return "DATA answered %d" % code + ctx(i)
        else:
            raise vlib.HarnessError("unknown command type %r" % t)
        i = nxt
    if r != len(replies):
        return "%d replies more than commands executed: %r" % (len(replies) - r, [x[0] for x in replies[r:]][:10])
    if c != len(commits) and qq["mode"] != "noread":
        return "%d objects committed but only %d acknowledged with 250" % (len(commits), c)
    info["slack"] += model.slack
    info["inv"] = inv
    return None


# ----------------------------------------------------------------------------------------------- scenario plumbing

def resolve_db(db, sizes):
    """databytes specification -> (effective limit, control file text or None, $DATABYTES or None).
    {"abs": n, "via": v} or {"rel": i, "delta": d, "via": v}: limit = (stored size of message i) - d, so d=+1 is one byte over."""
    if not db:
        return 0, None, None
    if "abs" in db:
        n = db["abs"]
    else:
        n = max(0, (sizes[db["rel"] % len(sizes)] if sizes else 0) - db["delta"])
    via = db.get("via", "ctl")
    if via == "ctl":
        return n, b"%d\n" % n, None
    if via == "env":
        return n, None, b"%d" % n
    if via == "both":                       # $DATABYTES overrides the control file
        return n, b"1\n", b"%d" % n
    if via == "env0":                       # ... also when it says "no limit"
        return 0, b"%d\n" % n, b"0"
    raise vlib.HarnessError("bad db.via")


def model_cfg(sc, env, databytes, local_ips):
    ctl = sc.get("ctl", {})

    def ent(name):
        v = ctl.get(name)
        return None if v is None else effective_entries([B(x) for x in v])
    lip = B(ctl.get("localiphost"))
    return {"rcpthosts": ent("rcpthosts"), "more": ent("morercpthosts") if ctl.get("rcpthosts") is not None else None,
            "bmf": ent("badmailfrom"), "liphost": (lip if lip is not None else B(ctl.get("me", "me.example"))).rstrip(b" \t"),
            "relay": env.get("RELAYCLIENT"), "databytes": databytes, "local_ips": local_ips, "qq": sc["qq"], "env": env}


def control_files(sc, dbctl):
    ctl = sc.get("ctl", {})

    nonl = set(ctl.get("nonl") or [])

    def fin(name, b):
        # a control file whose last line lacks the newline is legal: the line counts like any other
        return b[:-1] if (b and name in nonl and b.endswith(b"\n")) else b

    def text(name):
        v = ctl.get(name)
        return None if v is None else fin(name, b"".join(B(x) + b"\n" for x in v))
    lip = B(ctl.get("localiphost"))
    return {"me": fin("me", B(ctl.get("me", "me.example")) + b"\n"), "rcpthosts": text("rcpthosts"), "morercpthosts": text("morercpthosts"),
            "badmailfrom": text("badmailfrom"), "localiphost": None if lip is None else fin("localiphost", lip + b"\n"), "databytes": dbctl}


def scenario_env(sc, dbenv):
    env = {k: B(v) for k, v in sc.get("env", {}).items() if v is not None}
    if dbenv is not None:
        env["DATABYTES"] = dbenv
    return env


def fault_attempt(fault):
    """Which start of the queue program (0-based) the injected pipe()/fork() failure hits: qmail_open makes three pipes and one fork."""
    if not fault:
        return None
    return fault["k"] // 3 if fault["cls"] == "pipe" else fault["k"]


def run_smtp_scenario(r, sc, local_ips):
    """Execute one SMTP scenario and judge it.  -> (violation | None | "INCONCLUSIVE", info, obs)"""
    cmds = sc["cmds"]
    sizes = []
    for c in cmds:
        if c["t"] == "data":
            d = smtp_decode(cmd_wire(c))
            sizes.append(len(d[1]) if d[0] == "end" else 0)
    n, dbctl, dbenv = resolve_db(sc.get("db"), sizes)
    env = scenario_env(sc, dbenv)
    r.set_control(control_files(sc, dbctl))
    stream = smtp_stream(cmds)
    cut = sc.get("cut")
    if cut is not None:
        stream = stream[:cut]
    obs = r.run("smtpd", stream, env, sc["qq"], fault=sc.get("fault") or sc.get("sysfault"))
    info = {}
    if obs.rc is None:
        return "INCONCLUSIVE", info, obs
    cfg = model_cfg(sc, env, n, local_ips)
    cfg["fault_at"] = fault_attempt(sc.get("fault"))
    cfg["sysfault"] = sc.get("sysfault")
    v = smtp_check(sc, cfg, obs, info)
    info["rc"] = obs.rc
    return v, info, obs


# ----------------------------------------------------------------------------------------------- decision tape

class Tape:
    """Scenario generators are plain functions of a byte string drawn by Hypothesis (st.binary): cheap to generate, and shrinking
    the bytes towards zero walks every choice towards its first (simplest) option.  An exhausted tape yields 0."""

    def __init__(self, b):
        self.b = b
        self.i = 0

    def n(self, k):
        """integer in [0, k)"""
        if k <= 1:
            return 0
        if self.i + 2 > len(self.b):
            return 0
        v = self.b[self.i] * 256 + self.b[self.i + 1]
        self.i += 2
        return v % k

    def rng(self, lo, hi):
        return lo + self.n(hi - lo + 1)

    def pick(self, seq):
        return seq[self.n(len(seq))]

    def flag(self, num=1, den=2):
        """True with probability num/den; a zero tape says False."""
        return self.n(den) >= den - num

    def bytes(self, lo, hi, alphabet=None):
        ln = self.rng(lo, hi)
        if alphabet is None:
            return bytes(self.n(256) for _ in range(ln))
        return bytes(alphabet[self.n(len(alphabet))] for _ in range(ln))


# ----------------------------------------------------------------------------------------------- oracle self-test helpers

def fake_obs(out, commits, rc=0):
    """A hand-written observation (no program is run): used to prove that the oracles can say no (DESIGN 8, vacuity)."""
    o = Obs()
    o.rc, o.out, o.err, o.commits, o.invocations, o.recs = rc, out, b"", commits, len(commits), []
    o.t0 = o.t1 = int(time.time())
    return o


def fake_received(proto, peer=b"unknown", ip=b"unknown", local=b"unknown", helo=None, when=None):
    tm = time.gmtime(when if when is not None else time.time())
    date = b"%d %s %d %02d:%02d:%02d -0000\n" % (tm.tm_mday, MONTHS[tm.tm_mon - 1], tm.tm_year, tm.tm_hour, tm.tm_min, tm.tm_sec)
    return (b"Received: from " + peer + (b" (HELO " + helo + b")" if helo is not None else b"") + b" (" + ip + b")\n  by " + local +
            b" with " + proto + b"; " + date)


# ----------------------------------------------------------------------------------------------- search budget

def round_plan(ctx):
    """The Hypothesis part runs in rounds of fixed size with seeds derived from (VERIF_SEED, worker, round): the sequence of
    scenarios is a pure function of the seed; only *how many* rounds are run adapts to the machine (the sandbox is shared and its
    load varies by a factor of three), between a fixed minimum and maximum, so that the tier keeps its wall-clock budget
    (quick 60-150 s, thorough 10-25 min).  The clock never enters a verdict."""
    flag = os.path.join(vlib.scratch_root(), "violation-found")     # lets the other workers stop once one of them has a violation
    if getattr(ctx, "only", None) and "fixedrounds" in ctx.only:
        return {"size": 500, "min": 4, "max": 4, "deadline": None, "flag": flag}
    if ctx.quick:
        return {"size": 400, "min": 3, "max": 60, "deadline": ctx.t0 + 68, "flag": flag, "shrink": 20}
    return {"size": 2000, "min": 4, "max": 400, "deadline": ctx.t0 + 15 * 60, "flag": flag, "shrink": 120}


def raise_flag(plan):
    try:
        open(plan["flag"], "w").close()
    except OSError:
        pass


def flag_up(plan):
    return os.path.exists(plan["flag"])


def search_rounds(strategy, runfn, seed, stats, plan):
    rounds = 0
    fail = {"t": None, "seen": {}}

    def bounded(sc, stats):
        """runfn with a bounded shrink phase: once the first failure is `shrink` seconds old, scenarios that were seen failing keep
        failing (from the cache, so Hypothesis' final replay of its minimal example is consistent) and new ones are not executed."""
        key = vlib.digest(sc)
        if fail["t"] is not None and time.time() - fail["t"] > plan.get("shrink", 20):
            return fail["seen"].get(key)
        msg = runfn(sc, stats)
        if msg:
            if fail["t"] is None:
                fail["t"] = time.time()
                raise_flag(plan)
            fail["seen"][key] = msg
        return msg

    for rnd in range(plan["max"]):
        if rnd >= plan["min"] and (plan["deadline"] is None or time.time() >= plan["deadline"]):
            break
        if flag_up(plan):
            break
        vlib.hyp_search(strategy, bounded, plan["size"], vlib.subseed(seed, "round", rnd), stats)
        rounds += 1
        if stats.violations:
            raise_flag(plan)
            break
    stats.cls("hypothesis_rounds", rounds)
    stats.cls("hypothesis_examples_planned", rounds * plan["size"])
